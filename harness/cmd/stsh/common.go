package main

import (
	"bufio"
	"encoding/json"
	"fmt"
	"os"
	"strconv"
)

// readLines reads an ndjson file, calling fn for every non-empty line.
func readLines(path string, fn func(line []byte) error) error {
	f, err := os.Open(path)
	if err != nil {
		return err
	}
	defer f.Close()
	sc := bufio.NewScanner(f)
	sc.Buffer(make([]byte, 1<<20), 1<<28)
	for sc.Scan() {
		b := sc.Bytes()
		if len(b) == 0 {
			continue
		}
		if err := fn(b); err != nil {
			return err
		}
	}
	return sc.Err()
}

type ndWriter struct {
	f *os.File
	w *bufio.Writer
}

func newNDWriter(path string) (*ndWriter, error) {
	f, err := os.Create(path)
	if err != nil {
		return nil, err
	}
	return &ndWriter{f: f, w: bufio.NewWriterSize(f, 1<<20)}, nil
}

func (n *ndWriter) write(v any) {
	b, err := json.Marshal(v)
	if err != nil {
		panic(err)
	}
	n.w.Write(b)
	n.w.WriteByte('\n')
}

func (n *ndWriter) close() {
	n.w.Flush()
	n.f.Close()
}

func envSeed() int64 {
	if s := os.Getenv("VERIF_SEED"); s != "" {
		if v, err := strconv.ParseInt(s, 10, 64); err == nil {
			return v
		}
	}
	return 1
}

func fatal(args ...any) int {
	fmt.Fprintln(os.Stderr, args...)
	return 2
}

// quietLogger implements sts.Logger and discards everything.
type quietLogger struct{}

func (quietLogger) Debug(...interface{}) {}
func (quietLogger) Info(...interface{})  {}
func (quietLogger) Error(...interface{}) {}
func (quietLogger) Recent(int) []string  { return nil }
