package main

// Binding of spec/Stage.tla to stage.Stage (level L1).
//
//   stsh stage run -in scenarios.ndjson -traces out.ndjson [-crashall]
//
// A scenario is a universe (names, versions, announced predecessors / rename
// targets) and a list of commands.  Every command is one call of the real
// GateKeeper API (or an environment step: ageing a partial, overwriting staged
// bytes, a crash) and runs until the stage is quiescent; then the durable state
// (stage, final and log directories), the in-memory projection and what the
// hooks reported are recorded as one trace event.  A crash is taken at the k-th
// occurrence of a hook point inside a command: the directories are copied while
// the goroutine that reached the point is parked (the copy is the crash image),
// the instance is abandoned and a new Stage is started on the image.

import (
	"bytes"
	"crypto/md5"
	"encoding/json"
	"flag"
	"fmt"
	"io"
	"os"
	"path/filepath"
	"sort"
	"strconv"
	"strings"
	"sync"
	"time"

	"github.com/arm-doe/sts"
	"github.com/arm-doe/sts/log"
	"github.com/arm-doe/sts/marshal"
	"github.com/arm-doe/sts/stage"
	"github.com/arm-doe/sts/verifhook"
)

func init() { commands["stage"] = stageMain }

const blockSize = 4

type sUniverse struct {
	Names []string            `json:"names"`
	Vers  map[string][]int    `json:"vers"`
	Prev  map[string]string   `json:"prev"`
	Ren   map[string]string   `json:"ren"`
	NB    int                 `json:"nb"`
	Sub   map[string][]string `json:"sub,omitempty"`
}

type sCrash struct {
	Point string `json:"point"`
	K     int    `json:"k"`
}

type sCmd struct {
	Op    string  `json:"op"`
	N     string  `json:"n,omitempty"`
	V     int     `json:"v,omitempty"`
	Lo    int     `json:"lo,omitempty"`
	Hi    int     `json:"hi,omitempty"`
	DV    int     `json:"dv"`              // version of the bytes carried; 0 = corrupted
	Short int     `json:"short,omitempty"` // the reader ends this many bytes early
	Ext   string  `json:"ext,omitempty"`   // overwrite: which body
	K     int     `json:"k,omitempty"`     // overwrite: which block
	N2    string  `json:"n2,omitempty"`    // received2: the second part of the query
	V2    int     `json:"v2,omitempty"`
	Lo2   int     `json:"lo2,omitempty"`
	Hi2   int     `json:"hi2,omitempty"`
	Crash *sCrash `json:"crash,omitempty"`
}

type sScenario struct {
	ID   int       `json:"id"`
	U    sUniverse `json:"u"`
	Cmds []sCmd    `json:"cmds"`
}

type tag [2]any // ["a",1] | ["Z",0] | ["X",0]

type sCmp struct {
	V    int    `json:"v"`
	Prev string `json:"prev"`
	Ren  string `json:"ren"`
	Have []int  `json:"have"`
}

type sDurable struct {
	Part     map[string][]tag `json:"part"`
	Full     map[string][]tag `json:"full"`
	Waitf    map[string][]tag `json:"waitf"`
	Cmp      map[string]sCmp  `json:"cmp"`
	Old      map[string]bool  `json:"old"`
	FinalLck map[string][]tag `json:"finalLck"`
	Final    map[string][]tag `json:"final"`
	Rlog     []map[string]any `json:"rlog"`
	Other    []string         `json:"other"`
}

type sMem struct {
	Cache  map[string]map[string]any `json:"cache"`
	Wait   [][]string                `json:"wait"`
	Timers []string                  `json:"timers"`
	Ready  bool                      `json:"ready"`
}

type sEvent struct {
	Op      string           `json:"op"`
	ID      int              `json:"id,omitempty"`
	U       *sUniverse       `json:"u,omitempty"`
	Cmd     *sCmd            `json:"cmd,omitempty"`
	Res     string           `json:"res"`
	Post    *sDurable        `json:"post,omitempty"`
	Mem     *sMem            `json:"mem,omitempty"`
	Arrived [][]any          `json:"arrived"` // [n, v] per arrival in the final directory
	Cleaned []map[string]any `json:"cleaned"` // [n, v, what]
	Treated []map[string]any `json:"treated"` // [n, holes]
	Crashed bool             `json:"crashed"`
	Hooks   []string         `json:"hooks"` // hook points reached, in order
	Scan    []map[string]any `json:"scan,omitempty"`
}

// ---------------------------------------------------------------- universe
func blockBytes(n string, v, k int) []byte {
	s := md5.Sum([]byte(fmt.Sprintf("%s|%d|%d", n, v, k)))
	b := s[:blockSize]
	b[0] |= 1
	if bytes.Equal(b, bytes.Repeat([]byte{'X'}, blockSize)) {
		b[1] ^= 0x55
	}
	return append([]byte{}, b...)
}

func (u *sUniverse) content(n string, v int) []byte {
	var out []byte
	for k := 1; k <= u.NB; k++ {
		out = append(out, blockBytes(n, v, k)...)
	}
	return out
}

func (u *sUniverse) hash(n string, v int) string {
	return fmt.Sprintf("%x", md5.Sum(u.content(n, v)))
}

func (u *sUniverse) versionOfHash(n, h string) int {
	for _, v := range u.Vers[n] {
		if u.hash(n, v) == h {
			return v
		}
	}
	return 0
}

// tags decodes a body into block tags, relative to the file name n.
func (u *sUniverse) tags(n string, body []byte) []tag {
	out := []tag{}
	for k := 1; k <= u.NB; k++ {
		lo, hi := (k-1)*blockSize, k*blockSize
		if hi > len(body) {
			out = append(out, tag{"X", 0})
			continue
		}
		blk := body[lo:hi]
		t := tag{"X", 0}
		if bytes.Equal(blk, make([]byte, blockSize)) {
			t = tag{"Z", 0}
		} else {
			for _, v := range u.Vers[n] {
				if bytes.Equal(blk, blockBytes(n, v, k)) {
					t = tag{n, v}
				}
			}
		}
		out = append(out, t)
	}
	return out
}

// nameOfTarget maps a path in the final directory back to the file name.
func (u *sUniverse) nameOfTarget(t string) string {
	for _, n := range u.Names {
		if u.Ren[n] == t {
			return n
		}
	}
	return t
}

// ---------------------------------------------------------------- run state
type hookEv struct {
	point string
	kv    map[string]any
}

type stageRun struct {
	u       *sUniverse
	work    string
	gen     int // instance generation (directories root<gen>)
	st      *stage.Stage
	logger  *log.FileIO
	mu      sync.Mutex
	pending int
	events  []hookEv
	counts  map[string]int
	crash   *sCrash
	crashCh chan string // image dir
	dead    map[string]bool
	arrived [][]any
	cleaned []map[string]any
	treated []map[string]any
	hooks   []string
	crashes int
}

func (r *stageRun) root() string { return filepath.Join(r.work, fmt.Sprintf("g%d", r.gen)) }
func (r *stageRun) sdir() string { return filepath.Join(r.root(), "stage") }
func (r *stageRun) fdir() string { return filepath.Join(r.root(), "final") }
func (r *stageRun) ldir() string { return filepath.Join(r.root(), "log") }

func kvMap(kv []any) map[string]any {
	m := map[string]any{}
	for i := 0; i+1 < len(kv); i += 2 {
		m[fmt.Sprint(kv[i])] = kv[i+1]
	}
	return m
}

func (r *stageRun) hook(point string, kv ...any) {
	m := kvMap(kv)
	p := ""
	for _, key := range []string{"path", "root", "src", "dst"} {
		if s, ok := m[key].(string); ok && p == "" {
			p = s
		}
	}
	r.mu.Lock()
	// which instance does this event belong to?
	inst := ""
	for d := range r.dead {
		if strings.HasPrefix(p, d+string(os.PathSeparator)) || p == d {
			inst = d
		}
	}
	if inst != "" {
		r.mu.Unlock()
		select {} // the crashed process does not run any more
	}
	if !strings.HasPrefix(p, r.root()+string(os.PathSeparator)) {
		r.mu.Unlock()
		return
	}
	switch point {
	case "stage.enq":
		r.pending++
	case "stage.done":
		r.pending--
	}
	r.hooks = append(r.hooks, point)
	switch point {
	case "stage.put.moved":
		tp, _ := m["target"].(string)
		rel, _ := filepath.Rel(r.fdir(), tp)
		n := r.u.nameOfTarget(rel)
		body, _ := os.ReadFile(tp)
		v := 0
		for _, vv := range r.u.Vers[n] {
			if bytes.Equal(body, r.u.content(n, vv)) {
				v = vv
			}
		}
		r.arrived = append(r.arrived, []any{n, v})
	case "stage.clean.stray":
		fp, _ := m["path"].(string)
		rel, _ := filepath.Rel(r.sdir(), fp)
		del, _ := m["delete"].(bool)
		delCmp, _ := m["deleteCmp"].(bool)
		c, ok := r.readCmp(fp + ".cmp")
		v := 0
		if ok {
			v = c.V
		}
		if del {
			r.cleaned = append(r.cleaned, map[string]any{"n": rel, "v": v, "what": "part"})
		}
		if delCmp {
			r.cleaned = append(r.cleaned, map[string]any{"n": rel, "v": v, "what": "cmp"})
		}
	case "stage.recv.full":
		fp, _ := m["path"].(string)
		rel, _ := filepath.Rel(r.sdir(), fp)
		body, _ := os.ReadFile(fp + ".full")
		holes := []int{}
		for k, t := range r.u.tags(rel, body) {
			if t[0] == "Z" {
				holes = append(holes, k+1)
			}
		}
		r.treated = append(r.treated, map[string]any{"n": rel, "holes": holes})
	}
	r.counts[point]++
	if r.crash != nil && r.crash.Point == point && r.counts[point] == r.crash.K {
		// crash image: copy the three directories while this goroutine is parked
		// Other goroutines of the dying process stop at their next hook (they block on r.mu, which is
		// held here, and then find their instance dead); the image is taken once the tree has stopped
		// changing, so that it is a state between durable steps and not a torn copy.
		img := filepath.Join(r.work, fmt.Sprintf("g%d", r.gen+1))
		r.dead[r.root()] = true
		for try := 0; try < 50; try++ {
			d0 := treeDigest(r.root())
			time.Sleep(500 * time.Microsecond)
			if treeDigest(r.root()) != d0 {
				continue
			}
			os.RemoveAll(img)
			copyTree(r.root(), img)
			if treeDigest(r.root()) == d0 {
				break
			}
		}
		r.crash = nil
		ch := r.crashCh
		r.mu.Unlock()
		ch <- img
		select {}
	}
	r.mu.Unlock()
}

// treeDigest identifies the state of a directory tree (names, sizes, modification times).
func treeDigest(root string) string {
	h := md5.New()
	filepath.Walk(root, func(p string, info os.FileInfo, err error) error {
		if err == nil {
			fmt.Fprintf(h, "%s|%d|%d|%v\n", p, info.Size(), info.ModTime().UnixNano(), info.IsDir())
		}
		return nil
	})
	return fmt.Sprintf("%x", h.Sum(nil))
}

func copyTree(src, dst string) {
	filepath.Walk(src, func(p string, info os.FileInfo, err error) error {
		if err != nil {
			return nil
		}
		rel, _ := filepath.Rel(src, p)
		t := filepath.Join(dst, rel)
		if info.IsDir() {
			os.MkdirAll(t, 0o755)
			return nil
		}
		b, err := os.ReadFile(p)
		if err == nil {
			os.WriteFile(t, b, 0o644)
			os.Chtimes(t, info.ModTime(), info.ModTime())
		}
		return nil
	})
}

func (r *stageRun) start() {
	os.MkdirAll(r.sdir(), 0o755)
	os.MkdirAll(r.fdir(), 0o755)
	os.MkdirAll(r.ldir(), 0o755)
	r.logger = log.NewFileIO(r.ldir(), nil, nil, false)
	r.st = stage.New("src", r.sdir(), r.fdir(), r.logger, nil, nil)
	r.st.VerifStopCleaner()
	r.mu.Lock()
	r.pending = 0
	r.mu.Unlock()
	if r.gen == 0 {
		// as main/server.go does at start-up (this also gives the cache its start time)
		r.st.Recover()
	}
}

// quiesce waits until no validation / finalization is pending.
func (r *stageRun) quiesce() bool {
	deadline := time.Now().Add(8 * time.Second)
	stable := 0
	for time.Now().Before(deadline) {
		r.mu.Lock()
		p := r.pending
		r.mu.Unlock()
		if p == 0 {
			stable++
			if stable >= 3 {
				return true
			}
		} else {
			stable = 0
		}
		time.Sleep(300 * time.Microsecond)
	}
	return false
}

// ---------------------------------------------------------------- snapshots
func (r *stageRun) readCmp(path string) (sCmp, bool) {
	b, err := os.ReadFile(path)
	if err != nil {
		return sCmp{}, false
	}
	var p sts.Partial
	if json.Unmarshal(b, &p) != nil {
		return sCmp{}, false
	}
	rel, _ := filepath.Rel(r.sdir(), strings.TrimSuffix(path, ".cmp"))
	c := sCmp{V: r.u.versionOfHash(rel, p.Hash), Prev: p.Prev, Ren: p.Renamed, Have: []int{}}
	have := map[int]bool{}
	for _, br := range p.Parts {
		for k := 1; k <= r.u.NB; k++ {
			lo, hi := int64((k-1)*blockSize), int64(k*blockSize)
			if br.Beg <= lo && hi <= br.End {
				have[k] = true
			}
		}
	}
	for k := range have {
		c.Have = append(c.Have, k)
	}
	sort.Ints(c.Have)
	return c, true
}

func (r *stageRun) durable(root string) *sDurable {
	u := r.u
	d := &sDurable{Part: map[string][]tag{}, Full: map[string][]tag{}, Waitf: map[string][]tag{},
		Cmp: map[string]sCmp{}, Old: map[string]bool{}, FinalLck: map[string][]tag{}, Final: map[string][]tag{},
		Rlog: []map[string]any{}, Other: []string{}}
	for _, n := range u.Names {
		d.Part[n], d.Full[n], d.Waitf[n] = []tag{}, []tag{}, []tag{}
		d.Cmp[n] = sCmp{Have: []int{}}
		d.Old[n] = false
	}
	targets := map[string]bool{}
	for _, n := range u.Names {
		targets[n] = true
		if u.Ren[n] != "" {
			targets[u.Ren[n]] = true
		}
	}
	for t := range targets {
		d.Final[t], d.FinalLck[t] = []tag{}, []tag{}
	}
	sdir := filepath.Join(root, "stage")
	filepath.Walk(sdir, func(p string, info os.FileInfo, err error) error {
		if err != nil || info.IsDir() {
			return nil
		}
		rel, _ := filepath.Rel(sdir, p)
		ext := filepath.Ext(rel)
		n := strings.TrimSuffix(rel, ext)
		if _, known := d.Part[n]; !known {
			d.Other = append(d.Other, rel)
			return nil
		}
		body, _ := os.ReadFile(p)
		switch ext {
		case ".part":
			d.Part[n] = u.tags(n, body)
			d.Old[n] = time.Since(info.ModTime()) > 24*time.Hour
		case ".full":
			d.Full[n] = u.tags(n, body)
		case ".wait":
			d.Waitf[n] = u.tags(n, body)
		case ".cmp":
			c, ok := r.readCmp(p)
			if ok {
				d.Cmp[n] = c
			}
		default:
			d.Other = append(d.Other, rel)
		}
		return nil
	})
	fdir := filepath.Join(root, "final")
	filepath.Walk(fdir, func(p string, info os.FileInfo, err error) error {
		if err != nil || info.IsDir() {
			return nil
		}
		rel, _ := filepath.Rel(fdir, p)
		body, _ := os.ReadFile(p)
		if strings.HasSuffix(rel, ".lck") {
			t := strings.TrimSuffix(rel, ".lck")
			if _, ok := d.FinalLck[t]; ok {
				d.FinalLck[t] = u.tags(u.nameOfTarget(t), body)
				return nil
			}
		}
		if _, ok := d.Final[rel]; ok {
			d.Final[rel] = u.tags(u.nameOfTarget(rel), body)
		} else {
			d.Other = append(d.Other, "final/"+rel)
		}
		return nil
	})
	ldir := filepath.Join(root, "log")
	var files []string
	filepath.Walk(ldir, func(p string, info os.FileInfo, err error) error {
		if err == nil && !info.IsDir() {
			files = append(files, p)
		}
		return nil
	})
	sort.Strings(files)
	for _, f := range files {
		b, _ := os.ReadFile(f)
		for _, line := range strings.Split(string(b), "\n") {
			parts := strings.Split(line, ":")
			if len(parts) < 5 {
				continue
			}
			d.Rlog = append(d.Rlog, map[string]any{"n": parts[0], "ren": parts[1], "v": u.versionOfHash(parts[0], parts[2])})
		}
	}
	sort.Strings(d.Other)
	return d
}

var stateNames = map[int]string{-1: "unknown", 0: "received", 1: "validated", 2: "failed", 3: "finalized", 4: "logged"}

func (r *stageRun) memory() *sMem {
	snap := r.st.VerifSnapshot()
	m := &sMem{Cache: map[string]map[string]any{}, Wait: [][]string{}, Timers: []string{}, Ready: snap.Ready}
	for _, n := range r.u.Names {
		m.Cache[n] = map[string]any{"st": "unknown", "v": 0, "prev": "", "ren": ""}
	}
	for _, f := range snap.Cache {
		if _, ok := m.Cache[f.Name]; !ok {
			continue
		}
		m.Cache[f.Name] = map[string]any{"st": stateNames[f.State], "v": r.u.versionOfHash(f.Name, f.Hash), "prev": f.Prev, "ren": f.Renamed}
		if f.Timer {
			m.Timers = append(m.Timers, f.Name)
		}
	}
	for p, ws := range snap.Wait {
		pn, _ := filepath.Rel(r.sdir(), p)
		for _, w := range ws {
			wn, _ := filepath.Rel(r.sdir(), w)
			m.Wait = append(m.Wait, []string{pn, wn})
		}
	}
	sort.Slice(m.Wait, func(i, j int) bool { return strings.Join(m.Wait[i], "|") < strings.Join(m.Wait[j], "|") })
	sort.Strings(m.Timers)
	return m
}

// ---------------------------------------------------------------- commands
type hBinned struct {
	name, ren, prev, hash string
	size, beg, end        int64
	t                     time.Time
}

func (b hBinned) GetName() string          { return b.name }
func (b hBinned) GetRenamed() string       { return b.ren }
func (b hBinned) GetPrev() string          { return b.prev }
func (b hBinned) GetFileTime() time.Time   { return b.t }
func (b hBinned) GetFileHash() string      { return b.hash }
func (b hBinned) GetFileSize() int64       { return b.size }
func (b hBinned) GetSendSize() int64       { return b.size }
func (b hBinned) GetSlice() (int64, int64) { return b.beg, b.end }

var fileTime = time.Now().Add(-2 * time.Hour)

func (r *stageRun) binned(c *sCmd) hBinned {
	u := r.u
	return hBinned{name: c.N, ren: u.Ren[c.N], prev: u.Prev[c.N], hash: u.hash(c.N, c.V),
		size: int64(u.NB * blockSize), beg: int64((c.Lo - 1) * blockSize), end: int64(c.Hi * blockSize), t: fileTime}
}

func (r *stageRun) exec(c *sCmd) string {
	u := r.u
	switch c.Op {
	case "recv":
		b := r.binned(c)
		r.st.Prepare([]sts.Binned{b})
		var data []byte
		for k := c.Lo; k <= c.Hi; k++ {
			if c.DV == 0 {
				data = append(data, bytes.Repeat([]byte{'X'}, blockSize)...)
			} else {
				data = append(data, blockBytes(c.N, c.DV, k)...)
			}
		}
		if c.Short > 0 && c.Short <= len(data) {
			data = data[:len(data)-c.Short]
		}
		p := &sts.Partial{Name: c.N, Renamed: b.ren, Prev: b.prev, Time: marshal.NanoTime{Time: fileTime},
			Size: b.size, Hash: b.hash, Source: "src", Parts: []*sts.ByteRange{{Beg: b.beg, End: b.end}}}
		if err := r.st.Receive(p, io.LimitReader(bytes.NewReader(data), int64(len(data)))); err != nil {
			return "error"
		}
		return "ok"
	case "prepare":
		r.st.Prepare([]sts.Binned{r.binned(c)})
		return "ok"
	case "received":
		if r.st.Received([]sts.Binned{r.binned(c)}) == 1 {
			return "yes"
		}
		return "no"
	case "received2":
		c2 := *c
		c2.N, c2.V, c2.Lo, c2.Hi, c2.DV = c.N2, c.V2, c.Lo2, c.Hi2, c.V2
		return fmt.Sprint(r.st.Received([]sts.Binned{r.binned(c), r.binned(&c2)}))
	case "status":
		switch r.st.GetFileStatus(c.N, fileTime) {
		case sts.ConfirmFailed:
			return "failed"
		case sts.ConfirmPassed:
			return "passed"
		case sts.ConfirmWaiting:
			return "waiting"
		}
		return "none"
	case "scan":
		return "ok"
	case "age":
		old := time.Now().Add(-25 * time.Hour)
		if err := os.Chtimes(filepath.Join(r.sdir(), c.N+".part"), old, old); err != nil {
			return "nofile"
		}
		return "ok"
	case "clean":
		r.st.CleanNow()
		return "ok"
	case "expire":
		r.st.VerifExpireCache()
		return "ok"
	case "timer":
		if r.st.VerifFireTimer(filepath.Join(r.sdir(), c.N)) {
			return "fired"
		}
		return "notimer"
	case "overwrite":
		p := filepath.Join(r.sdir(), c.N+c.Ext)
		f, err := os.OpenFile(p, os.O_WRONLY, 0)
		if err != nil {
			return "nofile"
		}
		f.WriteAt(bytes.Repeat([]byte{'X'}, blockSize), int64((c.K-1)*blockSize))
		f.Close()
		return "ok"
	case "restart", "recover":
		r.st.Recover()
		return "ok"
	case "prune":
		r.st.Prune(0)
		return "ok"
	}
	_ = u
	return "unknown"
}

func (r *stageRun) scanList() []map[string]any {
	b, err := r.st.Scan("1")
	out := []map[string]any{}
	if err != nil {
		return out
	}
	var ps []*sts.Partial
	json.Unmarshal(b, &ps)
	for _, p := range ps {
		have := []int{}
		for _, br := range p.Parts {
			for k := 1; k <= r.u.NB; k++ {
				if br.Beg <= int64((k-1)*blockSize) && int64(k*blockSize) <= br.End {
					have = append(have, k)
				}
			}
		}
		sort.Ints(have)
		out = append(out, map[string]any{"n": p.Name, "v": r.u.versionOfHash(p.Name, p.Hash), "have": have})
	}
	sort.Slice(out, func(i, j int) bool { return out[i]["n"].(string) < out[j]["n"].(string) })
	return out
}

// run executes one scenario and returns its trace events; ok=false when the
// driver could not finish it (stuck, time-out).
func runStageScenario(sc *sScenario, work string, hookCounts *[]map[string]int) ([]sEvent, bool) {
	r := &stageRun{u: &sc.U, work: work, counts: map[string]int{}, dead: map[string]bool{}, crashCh: make(chan string, 1)}
	verifhook.Set(r.hook)
	defer verifhook.Set(nil)
	r.start()
	evs := []sEvent{{Op: "reset", ID: sc.ID, U: &sc.U, Arrived: [][]any{}, Cleaned: []map[string]any{}, Treated: []map[string]any{}, Hooks: []string{}}}
	t0 := time.Now()
	for i := range sc.Cmds {
		c := sc.Cmds[i]
		if time.Since(t0) > 7*time.Second {
			return evs, false // retry timers of the stage (10 s) must not fire by themselves
		}
		r.mu.Lock()
		r.arrived, r.cleaned, r.treated, r.hooks = [][]any{}, []map[string]any{}, []map[string]any{}, []string{}
		r.counts = map[string]int{}
		r.crash = c.Crash
		r.mu.Unlock()
		if c.Op == "restart" {
			// a crash while nothing is in flight: new instance on the same files
			img := filepath.Join(r.work, fmt.Sprintf("g%d", r.gen+1))
			copyTree(r.root(), img)
			r.mu.Lock()
			r.dead[r.root()] = true
			r.gen++
			r.crashes++
			r.mu.Unlock()
			r.start()
		}
		if r.crashes > 0 && c.Op == "recv" {
			// after a crash the sender asks before it sends again and skips what is held
			q := c
			q.Op = "received"
			q.Crash = nil
			res := r.exec(&q)
			if !r.quiesce() {
				return evs, false
			}
			qe := sEvent{Op: "cmd", Cmd: &q, Res: res, Post: r.durable(r.root()), Mem: r.memory(),
				Arrived: [][]any{}, Cleaned: []map[string]any{}, Treated: []map[string]any{}, Hooks: []string{}}
			evs = append(evs, qe)
			if res == "yes" {
				continue
			}
			r.mu.Lock()
			r.arrived, r.cleaned, r.treated, r.hooks = [][]any{}, []map[string]any{}, []map[string]any{}, []string{}
			r.counts = map[string]int{}
			r.mu.Unlock()
		}
		done := make(chan string, 1)
		go func() { done <- r.exec(&c) }()
		res := ""
		crashed := false
		select {
		case res = <-done:
			if !r.quiesceOrCrash(&crashed) {
				return evs, false
			}
		case <-r.crashCh:
			crashed = true
		case <-time.After(8 * time.Second):
			return evs, false
		}
		ev := sEvent{Op: "cmd", Cmd: &c, Res: res, Crashed: crashed}
		if crashed {
			ev.Res = "crashed"
			r.mu.Lock()
			r.gen++
			r.crashes++
			ev.Arrived, ev.Cleaned, ev.Treated, ev.Hooks = r.arrived, r.cleaned, r.treated, r.hooks
			r.mu.Unlock()
			// the image is what survives; the new process starts on it
			ev.Post = r.durable(r.root())
			r.start()
			ev.Mem = r.memory()
		} else {
			r.mu.Lock()
			ev.Arrived, ev.Cleaned, ev.Treated, ev.Hooks = r.arrived, r.cleaned, r.treated, r.hooks
			if hookCounts != nil {
				cp := map[string]int{}
				for k, v := range r.counts {
					cp[k] = v
				}
				*hookCounts = append(*hookCounts, cp)
			}
			r.mu.Unlock()
			ev.Post = r.durable(r.root())
			ev.Mem = r.memory()
			if c.Op == "scan" {
				ev.Scan = r.scanList()
			}
		}
		evs = append(evs, ev)
	}
	return evs, true
}

// quiesceOrCrash waits for quiescence; a crash point may also be reached by the
// background goroutines after the call returned.
func (r *stageRun) quiesceOrCrash(crashed *bool) bool {
	deadline := time.Now().Add(8 * time.Second)
	stable := 0
	for time.Now().Before(deadline) {
		select {
		case <-r.crashCh:
			*crashed = true
			return true
		default:
		}
		r.mu.Lock()
		p := r.pending
		r.mu.Unlock()
		if p == 0 {
			stable++
			if stable >= 3 {
				return true
			}
		} else {
			stable = 0
		}
		time.Sleep(300 * time.Microsecond)
	}
	return false
}

func stageMain(args []string) int {
	if len(args) < 1 {
		return fatal("usage: stsh stage run ...")
	}
	log.InitExternal(quietLogger{})
	fs := flag.NewFlagSet("stage", flag.ExitOnError)
	in := fs.String("in", "", "scenario file")
	traces := fs.String("traces", "", "trace ndjson for TLC")
	out := fs.String("out", "", "summary json")
	work := fs.String("work", "", "scratch directory")
	crashAll := fs.Bool("crashall", false, "also run every scenario with a crash at every hook occurrence of every command")
	crash2 := fs.Bool("crash2", false, "with -crashall: also a second crash at every hook occurrence of the Recover() that follows the first")
	fs.Parse(args[1:])
	if *work == "" {
		d, _ := os.MkdirTemp("", "stsh-stage")
		*work = d
		defer os.RemoveAll(d)
	}
	w, err := newNDWriter(*traces)
	if err != nil {
		return fatal(err)
	}
	defer w.close()
	total, failed, variants := 0, 0, 0
	seq := 0
	runOne := func(sc *sScenario, counts *[]map[string]int) bool {
		seq++
		dir := filepath.Join(*work, "s"+strconv.Itoa(seq))
		evs, ok := runStageScenario(sc, dir, counts)
		os.RemoveAll(dir)
		if !ok {
			failed++
			return false
		}
		for _, e := range evs {
			w.write(e)
		}
		return true
	}
	err = readLines(*in, func(line []byte) error {
		var sc sScenario
		if err := json.Unmarshal(line, &sc); err != nil {
			return err
		}
		total++
		var counts []map[string]int
		if !runOne(&sc, &counts) || !*crashAll {
			return nil
		}
		// fault enumeration: the k-th occurrence of every hook point in every command
		for ci, cnt := range counts {
			pts := make([]string, 0, len(cnt))
			for p := range cnt {
				if p == "stage.enq" || p == "stage.done" {
					continue
				}
				pts = append(pts, p)
			}
			sort.Strings(pts)
			for _, p := range pts {
				for k := 1; k <= cnt[p]; k++ {
					v := sScenario{ID: sc.ID*1000 + variants + 1, U: sc.U}
					v.Cmds = append([]sCmd{}, sc.Cmds[:ci+1]...)
					v.Cmds[ci].Crash = &sCrash{Point: p, K: k}
					v.Cmds = append(v.Cmds, sCmd{Op: "recover"})
					// the sender polls what it had sent before it goes on
					for _, n := range sc.U.Names {
						v.Cmds = append(v.Cmds, sCmd{Op: "status", N: n})
					}
					// afterwards the sender asks and re-sends what is not held
					v.Cmds = append(v.Cmds, sc.Cmds[ci+1:]...)
					variants++
					if !*crash2 {
						runOne(&v, nil)
						continue
					}
					var vc []map[string]int
					if !runOne(&v, &vc) || len(vc) <= ci {
						continue
					}
					// repeated crashes: the recovery itself dies at each of its hook points, then runs again
					rpts := make([]string, 0, len(vc[ci]))
					for rp := range vc[ci] {
						if rp != "stage.enq" && rp != "stage.done" {
							rpts = append(rpts, rp)
						}
					}
					sort.Strings(rpts)
					for _, rp := range rpts {
						for rk := 1; rk <= vc[ci][rp]; rk++ {
							v2 := sScenario{ID: v.ID*100 + variants%100, U: sc.U}
							v2.Cmds = append([]sCmd{}, v.Cmds[:ci+2]...)
							v2.Cmds[ci+1].Crash = &sCrash{Point: rp, K: rk}
							v2.Cmds = append(v2.Cmds, sCmd{Op: "recover"})
							v2.Cmds = append(v2.Cmds, v.Cmds[ci+2:]...)
							variants++
							runOne(&v2, nil)
						}
					}
				}
			}
		}
		return nil
	})
	if err != nil {
		return fatal("stage run:", err)
	}
	sum := map[string]any{"scenarios": total, "crash_variants": variants, "driver_failures": failed}
	b, _ := json.MarshalIndent(sum, "", " ")
	if *out != "" {
		os.WriteFile(*out, b, 0o644)
	}
	fmt.Printf("stage run: scenarios=%d crash_variants=%d driver_failures=%d\n", total, variants, failed)
	return 0
}
