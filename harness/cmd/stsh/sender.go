package main

// Level L2: the real client.Broker with the real store.Local, cache.JSON,
// queue.Tagged, payload.Bin, log.FileIO and http.Client, sending over loopback
// HTTP to a real http.Server + stage.Stage in this process.  Every call on the
// client.Conf interfaces goes through a decorator that records an event, can
// inject a fault, deliver a stop request, or "crash" the sender (every later
// call of that broker parks for ever; a new broker is built from what is on
// disk).
//
//   stsh sender run -in scenarios.ndjson -traces t.ndjson -out summary.json

import (
	"crypto/md5"
	"encoding/json"
	"errors"
	"flag"
	"fmt"
	"github.com/arm-doe/sts/verifhook"
	"io"
	"os"
	"path/filepath"
	"regexp"
	"sort"
	"strings"
	"sync"
	"sync/atomic"
	"time"

	"github.com/alecthomas/units"
	"github.com/arm-doe/sts"
	"github.com/arm-doe/sts/cache"
	"github.com/arm-doe/sts/client"
	stshttp "github.com/arm-doe/sts/http"
	stslog "github.com/arm-doe/sts/log"
	"github.com/arm-doe/sts/payload"
	"github.com/arm-doe/sts/queue"
	"github.com/arm-doe/sts/stage"
	"github.com/arm-doe/sts/store"
)

func init() { commands["sender"] = senderMain }

// ---------------------------------------------------------------- scenario
type bFile struct {
	Name string `json:"name"`
	Size int    `json:"size"`
	V    int    `json:"v"`    // content version
	Age  int    `json:"age"`  // seconds in the past of its mtime
	Kind string `json:"kind"` // "", "hidden", "lock", "empty", "young", "ignored", "symlink"
}

// an environment step, applied when the broker makes its At-th interface call
// (At = 0: before start)
type bStep struct {
	At   int    `json:"at"`
	On   string `json:"on,omitempty"` // with K: fire at the K-th call of this kind instead of the At-th call overall
	K    int    `json:"k,omitempty"`
	Op   string `json:"op"` // write | touch | append | delete | stop | stopnow | crash
	File *bFile `json:"file,omitempty"`
}

type bPre struct {
	Name string     `json:"name"`
	Held [][2]int64 `json:"held"`
}

// a fault for the K-th call (1-based) of one kind
type bFault struct {
	Kind string `json:"kind"` // transmit | txrecover | validate | recover
	K    int    `json:"k"`
	What string `json:"what"` // refuse | lost | fail206 | error
	J    int    `json:"j,omitempty"`
}

type bScenario struct {
	ID       int      `json:"id"`
	Threads  int      `json:"threads"`
	Payload  int      `json:"payload"`
	Chunk    int      `json:"chunk"`
	Order    string   `json:"order"`
	Delete   bool     `json:"delete"`
	Attempts int      `json:"attempts"`
	PollMax  int      `json:"pollmax"`
	MinAge   int      `json:"minage"`
	Hidden   bool     `json:"hidden"`
	Include  []string `json:"include"`
	Ignore   []string `json:"ignore"`
	OneShot  bool     `json:"oneshot"`
	Files    []bFile  `json:"files"`
	Steps    []bStep  `json:"steps"`
	Faults   []bFault `json:"faults"`
	// what the receiver holds of a file when the crashed sender restarts: byte ranges that the crashed
	// sender is taken to have transmitted (sent here, through the real client, at the first restart)
	Prestage []bPre `json:"prestage,omitempty"`
	DelDelay int    `json:"deldelay"` // delete delay in seconds (relative to the file's time, as canDelete has it)
	PollMs   int    `json:"pollms"`   // poll delay and interval in ms (default 5; the scan delay is 40)
	Settle   int    `json:"settle"`   // ms to keep running after the last step before the final graceful stop
}

// ---------------------------------------------------------------- receiver side (shared)
type faultGK struct {
	sts.GateKeeper
	mu     sync.Mutex
	failAt int // fail Receive of the part with this index (1-based) of the next data request; 0 = none
	seen   int
	// corrupt the bytes of every part of the next data request on their way into the staging
	// area (transient corruption: the parts are recorded, the file fails its validation)
	corruptNext, corrupting bool
}

type flipReader struct {
	r    io.Reader
	done bool
}

func (f *flipReader) Read(p []byte) (int, error) {
	n, err := f.r.Read(p)
	if n > 0 && !f.done {
		p[0] ^= 0x20
		f.done = true
	}
	return n, err
}

func (g *faultGK) Prepare(parts []sts.Binned) {
	g.mu.Lock()
	g.seen = 0
	g.corrupting, g.corruptNext = g.corruptNext, false
	g.mu.Unlock()
	g.GateKeeper.Prepare(parts)
}

func (g *faultGK) Receive(p *sts.Partial, r io.Reader) error {
	g.mu.Lock()
	g.seen++
	fail := g.failAt > 0 && g.seen == g.failAt
	if fail {
		g.failAt = 0
	}
	corrupt := g.corrupting
	g.mu.Unlock()
	if corrupt {
		r = &flipReader{r: r}
	}
	if fail {
		io.Copy(io.Discard, r)
		return errors.New("injected receive failure")
	}
	return g.GateKeeper.Receive(p, r)
}

type recvSide struct {
	mu     sync.Mutex
	root   string
	gks    map[string]*faultGK
	stages map[string]*stage.Stage
	port   int
}

func (r *recvSide) dirs(source string) (string, string, string) {
	b := filepath.Join(r.root, source)
	return filepath.Join(b, "stage"), filepath.Join(b, "final"), filepath.Join(b, "rlog")
}

func (r *recvSide) factory(source string) sts.GateKeeper {
	r.mu.Lock()
	defer r.mu.Unlock()
	if g, ok := r.gks[source]; ok {
		return g
	}
	sd, fd, ld := r.dirs(source)
	st := stage.New(source, sd, fd, stslog.NewFileIO(ld, nil, nil, false), nil, nil)
	st.VerifStopCleaner()
	st.Recover()
	g := &faultGK{GateKeeper: st}
	r.gks[source] = g
	r.stages[source] = st
	return g
}

func startRecvSide(root string) *recvSide {
	r := &recvSide{root: root, gks: map[string]*faultGK{}, stages: map[string]*stage.Stage{}, port: freePort()}
	srv := &stshttp.Server{Host: "127.0.0.1", Port: r.port, DecoderFactory: payload.NewDecoder,
		IsValid: func(string, string) bool { return true }, GateKeepers: map[string]sts.GateKeeper{},
		GateKeeperFactory: r.factory}
	stop, done := make(chan bool), make(chan bool, 1)
	go srv.Serve(stop, done)
	time.Sleep(300 * time.Millisecond)
	return r
}

// what the receiver holds for a source: final files (name -> md5), held .wait files, log records
func (r *recvSide) snapshot(source string) map[string]any {
	sd, fd, ld := r.dirs(source)
	final := map[string]string{}
	filepath.Walk(fd, func(p string, info os.FileInfo, err error) error {
		if err == nil && !info.IsDir() {
			rel, _ := filepath.Rel(fd, p)
			// (<name>.lck is the transient first half of fileutil.Move; a file that is renamed
			// between the listing and the read is picked up by the next snapshot)
			if b, err := os.ReadFile(p); err == nil && !strings.HasSuffix(rel, ".lck") {
				final[rel] = fmt.Sprintf("%x", md5.Sum(b))
			}
		}
		return nil
	})
	held := map[string]string{}
	staged := []string{}
	filepath.Walk(sd, func(p string, info os.FileInfo, err error) error {
		if err == nil && !info.IsDir() {
			rel, _ := filepath.Rel(sd, p)
			staged = append(staged, rel)
			if strings.HasSuffix(rel, ".wait") {
				if b, err := os.ReadFile(p); err == nil {
					held[strings.TrimSuffix(rel, ".wait")] = fmt.Sprintf("%x", md5.Sum(b))
				}
			}
		}
		return nil
	})
	sort.Strings(staged)
	logged := [][]string{}
	var files []string
	filepath.Walk(ld, func(p string, info os.FileInfo, err error) error {
		if err == nil && !info.IsDir() {
			files = append(files, p)
		}
		return nil
	})
	sort.Strings(files)
	for _, f := range files {
		b, _ := os.ReadFile(f)
		for _, line := range strings.Split(string(b), "\n") {
			parts := strings.Split(line, ":")
			if len(parts) >= 5 {
				logged = append(logged, []string{parts[0], parts[2]})
			}
		}
	}
	return map[string]any{"final": final, "held": held, "logged": logged, "staged": staged}
}

// ---------------------------------------------------------------- one run
type bRun struct {
	sc       *bScenario
	recv     *recvSide
	dir      string
	source   string
	mu       sync.Mutex
	events   []map[string]any
	calls    int
	kindN    map[string]int
	gen      int32 // broker generation; calls of older generations park
	crashCh  chan bool
	stopCh   chan bool
	stepIdx  int
	lastSig  time.Time           // the last interface call other than scan / persist
	versions map[string][]string // name -> md5 of every version ever written
}

func (b *bRun) out() string  { return filepath.Join(b.dir, "out") }
func (b *bRun) cdir() string { return filepath.Join(b.dir, "cache") }
func (b *bRun) slog() string { return filepath.Join(b.dir, "sentlog") }

func contentOf(name string, v, size int) []byte {
	out := make([]byte, size)
	seed := md5.Sum([]byte(fmt.Sprintf("%s|%d", name, v)))
	for i := range out {
		out[i] = seed[i%16] ^ byte(i*7)
	}
	return out
}

// denull replaces JSON nulls (nil slices / pointers) by empty arrays: the TLA+
// Json module cannot read null
func denull(v any) any {
	switch x := v.(type) {
	case nil:
		return []any{}
	case map[string]any:
		for k, e := range x {
			x[k] = denull(e)
		}
		return x
	case []any:
		for i, e := range x {
			x[i] = denull(e)
		}
		return x
	}
	return v
}

// emitG records an event of the broker generation gen
func (b *bRun) emitG(gen int32, ev map[string]any) {
	ev["gen"] = gen
	b.emit(ev)
}

func (b *bRun) emit(ev map[string]any) {
	// normalise through JSON so that every value is a plain map / slice / scalar
	raw, _ := json.Marshal(ev)
	var g map[string]any
	json.Unmarshal(raw, &g)
	ev = denull(g).(map[string]any)
	b.mu.Lock()
	ev["seq"] = len(b.events) + 1
	b.events = append(b.events, ev)
	b.mu.Unlock()
}

func actualName(f *bFile) string {
	switch f.Kind {
	case "hidden":
		return "." + f.Name
	case "lock":
		return f.Name + ".lck"
	case "ignored":
		return "x.ign"
	case "notincluded":
		return "x.txt"
	case "hiddendir":
		return ".h/" + f.Name
	}
	return f.Name
}

func (b *bRun) writeFile(f *bFile, op string) {
	name := actualName(f)
	if f.Kind == "empty" {
		f.Size = 0
	}
	if f.Kind == "young" {
		f.Age = 0
	}
	p := filepath.Join(b.out(), name)
	os.MkdirAll(filepath.Dir(p), 0o755)
	switch op {
	case "delete":
		os.Remove(p)
		b.emit(map[string]any{"op": "env", "what": "delete", "name": name})
		return
	case "touch":
		t := time.Now().Add(-time.Duration(f.Age) * time.Second)
		os.Chtimes(p, t, t)
		b.emit(map[string]any{"op": "env", "what": "touch", "name": name})
		return
	}
	data := contentOf(name, f.V, f.Size)
	if f.Kind == "symlink" {
		target := filepath.Join(b.dir, "linked", name)
		os.MkdirAll(filepath.Dir(target), 0o755)
		os.WriteFile(target, data, 0o644)
		os.Remove(p)
		os.Symlink(target, p)
	} else {
		os.WriteFile(p, data, 0o644)
	}
	t := time.Now().Add(-time.Duration(f.Age) * time.Second)
	os.Chtimes(p, t, t)
	h := fmt.Sprintf("%x", md5.Sum(data))
	b.mu.Lock()
	b.versions[name] = append(b.versions[name], h)
	b.mu.Unlock()
	b.emit(map[string]any{"op": "env", "what": "write", "name": name, "hash": h, "size": f.Size, "kind": f.Kind, "age": f.Age})
}

// call is the gate every decorated interface call passes through.
func (b *bRun) call(gen int32, kind string) (n int, k int) {
	if atomic.LoadInt32(&b.gen) != gen {
		select {} // the crashed sender does nothing any more
	}
	b.mu.Lock()
	b.calls++
	b.kindN[kind]++
	if kind != "scan" && kind != "persist" {
		b.lastSig = time.Now()
	}
	n, k = b.calls, b.kindN[kind]
	var due []bStep
	for b.stepIdx < len(b.sc.Steps) {
		s := b.sc.Steps[b.stepIdx]
		if s.On != "" {
			if s.On != kind || s.K != k {
				break
			}
		} else if s.At > n {
			break
		}
		due = append(due, s)
		b.stepIdx++
	}
	b.mu.Unlock()
	for _, s := range due {
		switch s.Op {
		case "write", "touch", "append", "delete":
			b.writeFile(s.File, s.Op)
		case "stop":
			b.emit(map[string]any{"op": "stop", "graceful": true, "at": n})
			go func() { b.stopCh <- true }()
		case "stopnow":
			b.emit(map[string]any{"op": "stop", "graceful": false, "at": n})
			go func() { b.stopCh <- false }()
		case "crash":
			b.emit(map[string]any{"op": "crash", "at": n})
			atomic.AddInt32(&b.gen, 1)
			b.crashCh <- true
			select {}
		}
	}
	return
}

func (b *bRun) fault(kind string, k int) *bFault {
	for i := range b.sc.Faults {
		f := &b.sc.Faults[i]
		if f.Kind == kind && f.K == k {
			return f
		}
	}
	return nil
}

// ---- decorators
type dStore struct {
	*store.Local
	b     *bRun
	gen   int32
	nscan int
}

func (s *dStore) Scan(fn func(sts.File) bool) ([]sts.File, time.Time, error) {
	s.b.call(s.gen, "scan")
	files, t, err := s.Local.Scan(fn)
	names := []string{}
	for _, f := range files {
		names = append(names, f.GetName())
	}
	sort.Strings(names)
	// (a scan that finds nothing is recorded only as the first scan of a run of the sender)
	s.nscan++
	if len(names) > 0 || s.nscan == 1 {
		s.b.emitG(s.gen, map[string]any{"op": "scan", "found": names})
	}
	return files, t, err
}

func (s *dStore) srcHash(name string) string {
	b, err := os.ReadFile(filepath.Join(s.b.out(), name))
	if err != nil {
		return ""
	}
	return fmt.Sprintf("%x", md5.Sum(b))
}

func (s *dStore) Remove(f sts.File) error {
	// The environment acts after the deletion, not between the broker's last look at the
	// file and the unlink (no implementation can close that window).
	if atomic.LoadInt32(&s.b.gen) != s.gen {
		select {}
	}
	s.b.emitG(s.gen, map[string]any{"op": "remove", "name": f.GetName(), "srchash": s.srcHash(f.GetName()), "recv": s.b.recv.snapshot(s.b.source)})
	err := s.Local.Remove(f)
	s.b.call(s.gen, "remove")
	return err
}

type dCache struct {
	*cache.JSON
	b   *bRun
	gen int32
	st  *dStore
}

func (c *dCache) Add(f sts.Hashed) {
	c.b.call(c.gen, "add")
	c.b.emitG(c.gen, map[string]any{"op": "add", "name": f.GetName(), "hash": f.GetHash(), "size": f.GetSize()})
	c.JSON.Add(f)
}

func (c *dCache) Done(name string, fn func(sts.Cached)) {
	c.b.call(c.gen, "done")
	was := false
	if f := c.JSON.Get(name); f != nil {
		was = f.IsDone()
	}
	hash := ""
	if f := c.JSON.Get(name); f != nil {
		hash = f.GetHash()
	}
	c.b.emitG(c.gen, map[string]any{"op": "done", "name": name, "already": was, "cachehash": hash, "srchash": c.st.srcHash(name), "recv": c.b.recv.snapshot(c.b.source)})
	c.JSON.Done(name, fn)
}

func (c *dCache) Remove(name string) {
	c.b.call(c.gen, "cremove")
	c.b.emitG(c.gen, map[string]any{"op": "cremove", "name": name})
	c.JSON.Remove(name)
}

func (c *dCache) Persist() error {
	c.b.call(c.gen, "persist")
	err := c.JSON.Persist()
	// (the cache writes are interface calls - a step or crash can be placed at them - but no event)
	return err
}

type dQueue struct {
	*queue.Tagged
	b   *bRun
	gen int32
}

func (q *dQueue) Push(files []sts.Hashed) {
	q.b.call(q.gen, "push")
	fs := []map[string]any{}
	for _, f := range files {
		_, rec := f.(sts.Recovered)
		fs = append(fs, map[string]any{"name": f.GetName(), "hash": f.GetHash(), "size": f.GetSize(), "rec": rec})
	}
	q.b.emitG(q.gen, map[string]any{"op": "push", "files": fs})
	q.Tagged.Push(files)
}

func (q *dQueue) Pop() sts.Sendable {
	s := q.Tagged.Pop()
	if s != nil {
		q.b.call(q.gen, "pop")
		off, n := s.GetSlice()
		q.b.emitG(q.gen, map[string]any{"op": "pop", "name": s.GetName(), "off": off, "len": n, "prev": s.GetPrev(), "hash": s.GetHash(), "send": s.GetSendSize()})
	}
	return s
}

type dLogger struct {
	*stslog.FileIO
	b   *bRun
	gen int32
}

func (l *dLogger) Sent(f sts.Sent) {
	l.b.call(l.gen, "sent")
	l.b.emitG(l.gen, map[string]any{"op": "sent", "name": f.GetName(), "hash": f.GetHash(), "size": f.GetSize(), "recv": l.b.recv.snapshot(l.b.source)})
	l.FileIO.Sent(f)
}

func partsOf(p sts.Payload) []map[string]any {
	out := []map[string]any{}
	hdr, _ := p.EncodeHeader()
	var meta []struct {
		N string `json:"n"`
		P string `json:"p"`
		F string `json:"f"`
		S int64  `json:"s"`
		B int64  `json:"b"`
		E int64  `json:"e"`
	}
	json.Unmarshal(hdr, &meta)
	for _, m := range meta {
		out = append(out, map[string]any{"name": m.N, "prev": m.P, "hash": m.F, "size": m.S, "beg": m.B, "end": m.E})
	}
	return out
}

// recorded reads the receiver's companion for each part: is the range on record?
func (b *bRun) recorded(parts []map[string]any) []bool {
	sd, _, _ := b.recv.dirs(b.source)
	out := make([]bool, len(parts))
	for i, p := range parts {
		name := p["name"].(string)
		// the companion first, the delivered state second: the receiver goes from "range on
		// record" to "delivered and logged" to "companion removed", never backwards
		if cb, err := os.ReadFile(filepath.Join(sd, name+".cmp")); err == nil {
			var c sts.Partial
			json.Unmarshal(cb, &c)
			if c.Hash == p["hash"].(string) {
				beg, end := p["beg"].(int64), p["end"].(int64)
				for _, r := range c.Parts {
					if r.Beg <= beg && end <= r.End {
						out[i] = true
					}
				}
			}
		}
		if !out[i] && b.everCompleted(name, p["hash"].(string)) {
			out[i] = true // the whole version is held validated or delivered
		}
	}
	return out
}

func (b *bRun) everCompleted(name, hash string) bool {
	snap := b.recv.snapshot(b.source)
	if snap["held"].(map[string]string)[name] == hash || snap["final"].(map[string]string)[name] == hash {
		return true
	}
	for _, l := range snap["logged"].([][]string) {
		if l[0] == name && l[1] == hash {
			return true
		}
	}
	return false
}

func (b *bRun) build(gen int32) (*client.Broker, *stshttp.Client) {
	sc := b.sc
	os.MkdirAll(b.out(), 0o755)
	os.MkdirAll(b.cdir(), 0o755)
	st := &store.Local{Root: b.out(), MinAge: time.Duration(sc.MinAge) * time.Second, IncludeHidden: sc.Hidden}
	for _, p := range sc.Include {
		st.Include = append(st.Include, regexp.MustCompile(p))
	}
	for _, p := range sc.Ignore {
		st.Ignore = append(st.Ignore, regexp.MustCompile(p))
	}
	st.AddStandardIgnore()
	ds := &dStore{Local: st, b: b, gen: gen}
	cj, err := cache.NewJSON(b.cdir(), b.out(), "")
	if err != nil {
		panic(err)
	}
	dc := &dCache{JSON: cj, b: b, gen: gen, st: ds}
	order := sc.Order
	if order == "" {
		order = sts.OrderFIFO
	}
	qtags := []*queue.Tag{{Name: "", Priority: 0, Order: order, ChunkSize: int64(sc.Chunk)}}
	tagger := func(string) string { return "" }
	grouper := func(name string) string { return "" }
	q := &dQueue{Tagged: queue.NewTagged(qtags, tagger, grouper), b: b, gen: gen}
	hc := &stshttp.Client{SourceName: b.source, TargetHost: "127.0.0.1", TargetPort: b.recv.port, Timeout: 10 * time.Second,
		PartialsDecoder: stage.ReadCompanions, Protocol: stshttp.ParseProtocol("http")}
	lg := &dLogger{FileIO: stslog.NewFileIO(b.slog(), nil, nil, false), b: b, gen: gen}
	threads := sc.Threads
	if threads == 0 {
		threads = 1
	}
	attempts := sc.Attempts
	if attempts == 0 {
		attempts = 2
	}
	pollMax := sc.PollMax
	if pollMax == 0 {
		pollMax = 10
	}
	scanDelay := 40 * time.Millisecond
	pollDelay := 5 * time.Millisecond
	if sc.PollMs > 0 {
		pollDelay = time.Duration(sc.PollMs) * time.Millisecond
	}
	conf := &client.Conf{
		Name: fmt.Sprintf("%s#%d", b.source, gen), Store: ds, Cache: dc, Queue: q, BuildPayload: payload.NewBin, Logger: lg,
		Tagger: func(string) string { return "" }, CacheAge: time.Hour, ScanDelay: scanDelay, Threads: threads,
		PayloadSize: units.Base2Bytes(sc.Payload), PollDelay: pollDelay, PollInterval: pollDelay,
		PollAttempts: attempts, PollMaxCount: pollMax,
		Tags: []*client.FileTag{{Name: "", InOrder: order != sts.OrderNone, Delete: sc.Delete, DeleteDelay: time.Duration(sc.DelDelay) * time.Second}},
	}
	conf.Recoverer = func() ([]*sts.Partial, error) {
		_, k := b.call(gen, "recover")
		if f := b.fault("recover", k); f != nil {
			b.emitG(gen, map[string]any{"op": "partials", "fault": f.What})
			return nil, errors.New("injected recovery failure")
		}
		ps, err := hc.Recover()
		out := []map[string]any{}
		for _, p := range ps {
			rs := [][]int64{}
			for _, r := range p.Parts {
				rs = append(rs, []int64{r.Beg, r.End})
			}
			out = append(out, map[string]any{"name": p.Name, "hash": p.Hash, "prev": p.Prev, "parts": rs})
		}
		b.emitG(gen, map[string]any{"op": "partials", "list": out, "err": fmt.Sprint(err)})
		return ps, err
	}
	conf.Transmitter = func(p sts.Payload) (int, error) {
		_, k := b.call(gen, "transmit")
		parts := partsOf(p)
		ev := map[string]any{"op": "transmit", "k": k, "parts": parts, "fault": ""}
		f := b.fault("transmit", k)
		if f != nil {
			ev["fault"] = f.What
			switch f.What {
			case "refuse":
				ev["n"], ev["err"] = 0, "refused"
				ev["recorded"] = b.recorded(parts)
				b.emitG(gen, ev)
				return 0, errors.New("injected: connection refused")
			case "fail206":
				g := b.recv.factory(b.source).(*faultGK)
				g.mu.Lock()
				g.failAt = f.J
				g.mu.Unlock()
			case "corrupt":
				g := b.recv.factory(b.source).(*faultGK)
				g.mu.Lock()
				g.corruptNext = true
				g.mu.Unlock()
			}
		}
		n, err := hc.Transmit(p)
		if f != nil && f.What == "lost" {
			n, err = 0, errors.New("injected: answer lost")
		}
		ev["n"], ev["err"] = n, fmt.Sprint(err)
		ev["recorded"] = b.recorded(parts)
		b.emitG(gen, ev)
		return n, err
	}
	conf.TxRecoverer = func(p sts.Payload) (int, error) {
		_, k := b.call(gen, "txrecover")
		parts := partsOf(p)
		if f := b.fault("txrecover", k); f != nil {
			b.emitG(gen, map[string]any{"op": "txrecover", "parts": parts, "fault": f.What, "n": 0, "err": "injected"})
			return 0, errors.New("injected recovery-request failure")
		}
		n, err := hc.RecoverTransmission(p)
		b.emitG(gen, map[string]any{"op": "txrecover", "parts": parts, "fault": "", "n": n, "err": fmt.Sprint(err), "recorded": b.recorded(parts)})
		return n, err
	}
	conf.Validator = func(sent []sts.Pollable) ([]sts.Polled, error) {
		_, k := b.call(gen, "validate")
		names := []string{}
		for _, s := range sent {
			names = append(names, s.GetName())
		}
		f := b.fault("validate", k)
		if f != nil && f.What == "error" {
			b.emitG(gen, map[string]any{"op": "validate", "names": names, "fault": "error", "answers": map[string]string{}})
			return nil, errors.New("injected poll failure")
		}
		polled, err := hc.Validate(sent)
		ans := map[string]string{}
		for _, p := range polled {
			switch {
			case p.Received():
				ans[p.GetName()] = "passed"
			case p.Waiting():
				ans[p.GetName()] = "waiting"
			case p.Failed():
				ans[p.GetName()] = "failed"
			default:
				ans[p.GetName()] = "none"
			}
		}
		if f != nil && f.What == "lost" {
			b.emitG(gen, map[string]any{"op": "validate", "names": names, "fault": "lost", "answers": map[string]string{}})
			return nil, errors.New("injected: poll answer lost")
		}
		b.emitG(gen, map[string]any{"op": "validate", "names": names, "fault": "", "answers": ans, "err": fmt.Sprint(err), "recv": b.recv.snapshot(b.source)})
		return polled, err
	}
	return &client.Broker{Conf: conf}, hc
}

func (b *bRun) srcListing() map[string]string {
	out := map[string]string{}
	filepath.Walk(b.out(), func(p string, info os.FileInfo, err error) error {
		if err == nil && !info.IsDir() {
			rel, _ := filepath.Rel(b.out(), p)
			bs, _ := os.ReadFile(p)
			out[rel] = fmt.Sprintf("%x", md5.Sum(bs))
		}
		return nil
	})
	return out
}

func (b *bRun) cacheListing() map[string]map[string]any {
	out := map[string]map[string]any{}
	files, _ := filepath.Glob(filepath.Join(b.cdir(), "*.json"))
	for _, f := range files {
		var c struct {
			Files map[string]struct {
				Hash string `json:"hash"`
				Done bool   `json:"done"`
				Size int64  `json:"size"`
			} `json:"files"`
		}
		bs, _ := os.ReadFile(f)
		json.Unmarshal(bs, &c)
		for k, v := range c.Files {
			out[k] = map[string]any{"hash": v.Hash, "done": v.Done, "size": v.Size}
		}
	}
	return out
}

func runSender(sc *bScenario, recv *recvSide, work string) []map[string]any {
	b := &bRun{sc: sc, recv: recv, dir: filepath.Join(work, fmt.Sprintf("b%d", sc.ID)), source: fmt.Sprintf("src%d", sc.ID),
		kindN: map[string]int{}, crashCh: make(chan bool, 1), stopCh: make(chan bool, 4), versions: map[string][]string{}}
	runsMu.Lock()
	runs[b.source] = b
	runsMu.Unlock()
	defer func() {
		runsMu.Lock()
		delete(runs, b.source)
		runsMu.Unlock()
	}()
	conf, _ := json.Marshal(sc)
	var confAny any
	json.Unmarshal(conf, &confAny)
	b.emit(map[string]any{"op": "reset", "id": sc.ID, "conf": confAny})
	for i := range sc.Files {
		b.writeFile(&sc.Files[i], "write")
	}
	// steps with At = 0 apply before the start
	for b.stepIdx < len(sc.Steps) && sc.Steps[b.stepIdx].At == 0 && sc.Steps[b.stepIdx].On == "" {
		s := sc.Steps[b.stepIdx]
		b.stepIdx++
		if s.File != nil {
			b.writeFile(s.File, s.Op)
		}
	}
	deadline := time.Now().Add(25 * time.Second)
	for round := 0; round < 3; round++ {
		gen := atomic.LoadInt32(&b.gen)
		br, hc := b.build(gen)
		stop, done := make(chan bool, 1), make(chan bool, 1)
		b.emit(map[string]any{"op": "start", "gen": gen, "recv": b.recv.snapshot(b.source), "cache": b.cacheListing()})
		go br.Start(stop, done)
		if sc.OneShot {
			stop <- true // as main/app.go does for a one-shot run
			b.emit(map[string]any{"op": "stop", "graceful": true, "at": 0})
		}
		crashed, finished, stopped := false, false, sc.OneShot
		settle := time.Duration(sc.Settle) * time.Millisecond
		if settle == 0 {
			settle = 600 * time.Millisecond
		}
		// the quiet period: the final graceful stop comes when the sender has made no call other
		// than scans for that long (longer than the binner's 1 s flush timer), so that what a
		// fault left to be done again is not cut off by the stop
		if settle < 1300*time.Millisecond {
			settle = 1300 * time.Millisecond
		}
		b.mu.Lock()
		b.lastSig = time.Now()
		b.mu.Unlock()
		timer := time.NewTimer(settle)
	loop:
		for {
			select {
			case g := <-b.stopCh:
				if !stopped {
					stopped = true
					stop <- g
				}
			case <-b.crashCh:
				crashed = true
				break loop
			case <-done:
				finished = true
				break loop
			case <-timer.C:
				// the scenario's quiet period is over: finish gracefully
				b.mu.Lock()
				idle := time.Since(b.lastSig)
				b.mu.Unlock()
				if !stopped && idle < settle {
					timer.Reset(settle - idle + 10*time.Millisecond)
					continue
				}
				if !stopped {
					stopped = true
					b.emit(map[string]any{"op": "stop", "graceful": true, "at": -1})
					stop <- true
				}
			case <-time.After(time.Until(deadline)):
				break loop
			}
		}
		if crashed {
			hc.Destroy()
			if round == 0 {
				b.prestage()
			}
			b.emit(map[string]any{"op": "restart"})
			continue
		}
		// let the receiver finish what it holds (validation and finalization are asynchronous)
		b.quiesce()
		// one clean interval of the receiver elapses (wait loops are broken there)
		if st := b.recv.stage(b.source); st != nil {
			st.CleanNow()
			b.quiesce()
		}
		b.emit(map[string]any{"op": "end", "terminated": finished, "src": b.srcListing(), "cache": b.cacheListing(),
			"recv": b.recv.snapshot(b.source), "versions": b.versions})
		if !finished {
			atomic.AddInt32(&b.gen, 1) // park whatever is left of it
		}
		hc.Destroy()
		break
	}
	return b.events
}

func (r *recvSide) stage(source string) *stage.Stage {
	r.mu.Lock()
	defer r.mu.Unlock()
	return r.stages[source]
}

// prestage transmits the byte ranges of the scenario's "prestage" entries, one request per range,
// the way the crashed sender would have (same source, hash, time, no predecessor).
func (b *bRun) prestage() {
	if len(b.sc.Prestage) == 0 {
		return
	}
	hc := &stshttp.Client{SourceName: b.source, TargetHost: "127.0.0.1", TargetPort: b.recv.port, Timeout: 10 * time.Second,
		PartialsDecoder: stage.ReadCompanions, Protocol: stshttp.ParseProtocol("http")}
	defer hc.Destroy()
	for _, pre := range b.sc.Prestage {
		p := filepath.Join(b.out(), pre.Name)
		info, err := os.Stat(p)
		if err != nil {
			continue
		}
		data, _ := os.ReadFile(p)
		f := &fFile{path: p, name: pre.Name, size: info.Size(), t: info.ModTime(), hash: fmt.Sprintf("%x", md5.Sum(data))}
		for _, r := range pre.Held {
			bin := payload.NewBin(1<<20, func(sf sts.File) (sts.Readable, error) {
				fh, err := os.Open(sf.GetPath())
				if err != nil {
					return nil, err
				}
				return osReadable{fh}, nil
			}, nil)
			bin.Add(client.VerifNewBinnable(&fChunk{fFile: f, prev: "", off: r[0], n: r[1] - r[0]}, "", true))
			n, err := hc.Transmit(bin)
			b.emit(map[string]any{"op": "prestage", "name": pre.Name, "beg": r[0], "end": r[1], "n": n, "err": fmt.Sprint(err)})
		}
	}
}

func (b *bRun) quiesce() {
	prev, _ := json.Marshal(b.recv.snapshot(b.source))
	for i, same := 0, 0; i < 200 && same < 3; i++ {
		time.Sleep(15 * time.Millisecond)
		cur, _ := json.Marshal(b.recv.snapshot(b.source))
		if string(cur) == string(prev) {
			same++
		} else {
			same, prev = 0, cur
		}
	}
}

// the runs of this process by source name, for the shutdown hooks of client.Broker
var (
	runsMu sync.Mutex
	runs   = map[string]*bRun{}
)

func senderHook(point string, kv ...any) {
	if !strings.HasPrefix(point, "client.") {
		return
	}
	f := map[string]string{}
	for i := 0; i+1 < len(kv); i += 2 {
		f[fmt.Sprint(kv[i])] = fmt.Sprint(kv[i+1])
	}
	name, gen := f["name"], 0
	if i := strings.LastIndex(name, "#"); i >= 0 {
		fmt.Sscan(name[i+1:], &gen)
		name = name[:i]
	}
	runsMu.Lock()
	b := runs[name]
	runsMu.Unlock()
	if b == nil {
		return
	}
	switch point {
	case "client.exit":
		b.emitG(int32(gen), map[string]any{"op": "shutdown", "what": "exit:" + f["who"]})
	case "client.close":
		b.emitG(int32(gen), map[string]any{"op": "shutdown", "what": "close:" + f["ch"]})
	case "client.return":
		b.emitG(int32(gen), map[string]any{"op": "shutdown", "what": "return"})
	}
}

func senderMain(args []string) int {
	if len(args) < 1 || args[0] != "run" {
		return fatal("usage: stsh sender run ...")
	}
	stslog.InitExternal(quietLogger{})
	verifhook.Set(senderHook)
	fs := flag.NewFlagSet("sender", flag.ExitOnError)
	in := fs.String("in", "", "scenario file")
	traces := fs.String("traces", "", "trace ndjson")
	out := fs.String("out", "", "summary json")
	par := fs.Int("par", 24, "brokers running concurrently")
	fs.Parse(args[1:])
	w, err := newNDWriter(*traces)
	if err != nil {
		return fatal(err)
	}
	defer w.close()
	work, _ := os.MkdirTemp("", "stsh-sender")
	defer os.RemoveAll(work)
	recv := startRecvSide(filepath.Join(work, "recv"))
	var scs []*bScenario
	err = readLines(*in, func(line []byte) error {
		var sc bScenario
		if err := json.Unmarshal(line, &sc); err != nil {
			return err
		}
		scs = append(scs, &sc)
		return nil
	})
	if err != nil {
		return fatal(err)
	}
	results := make([][]map[string]any, len(scs))
	sem := make(chan bool, *par)
	var wg sync.WaitGroup
	for i, sc := range scs {
		wg.Add(1)
		sem <- true
		go func(i int, sc *bScenario) {
			defer wg.Done()
			results[i] = runSender(sc, recv, work)
			<-sem
		}(i, sc)
	}
	wg.Wait()
	unterminated := 0
	for _, evs := range results {
		for _, e := range evs {
			w.write(e)
			if e["op"] == "end" && e["terminated"] == false {
				unterminated++
			}
		}
	}
	b, _ := json.MarshalIndent(map[string]any{"scenarios": len(scs), "unterminated": unterminated}, "", " ")
	os.WriteFile(*out, b, 0o644)
	fmt.Printf("sender run: scenarios=%d unterminated=%d\n", len(scs), unterminated)
	return 0
}
