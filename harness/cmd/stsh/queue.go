package main

// Binding of spec/Queue.tla to queue.Tagged (and client.recoverFile).
//
//   stsh queue replay -in scenarios.ndjson -out summary.json -traces traces.ndjson
//       executes TLC-enumerated histories (direction B) on the real queue,
//       compares every Pop result with the specification's prediction and
//       writes the observed histories of diverging (and of a sample of
//       conforming) scenarios as trace events for QueueTrace.tla.
//   stsh queue random -n N -len L -out traces.ndjson
//       seeded random histories, observed, for trace validation (direction A).

import (
	"encoding/json"
	"flag"
	"fmt"
	"math/rand"
	"os"
	"sort"
	"strings"
	"time"

	"github.com/arm-doe/sts"
	"github.com/arm-doe/sts/client"
	"github.com/arm-doe/sts/log"
	"github.com/arm-doe/sts/mock"
	"github.com/arm-doe/sts/queue"
)

func init() { commands["queue"] = queueMain }

type qFile struct {
	Name  string    `json:"name"`
	NRank int       `json:"nrank"`
	Grp   string    `json:"grp"`
	Time  int       `json:"time"`
	Size  int64     `json:"size"`
	Rec   bool      `json:"rec"`
	RPrev string    `json:"rprev"`
	Left  [][]int64 `json:"left"`
}

type qTag struct {
	Prio  int    `json:"prio"`
	Order string `json:"order"`
	Chunk int64  `json:"chunk"`
	Delay bool   `json:"delay"`
}

type qRes struct {
	Name string `json:"name"`
	Grp  string `json:"grp"`
	Off  int64  `json:"off"`
	Len  int64  `json:"len"`
	Prev string `json:"prev"`
	Send int64  `json:"send"`
}

type qEvent struct {
	Op    string          `json:"op"`
	B     string          `json:"b,omitempty"`
	Files []qFile         `json:"files,omitempty"`
	Res   *qRes           `json:"res,omitempty"`
	Conf  map[string]qTag `json:"conf,omitempty"`
	ID    int             `json:"id,omitempty"`
}

type qScenario struct {
	Conf map[string]qTag `json:"conf"`
	Hist []qEvent        `json:"hist"`
}

func grpOf(name string) string {
	if i := strings.Index(name, "/"); i > 0 {
		return name[:i]
	}
	return name
}

var qT0 time.Time

func qTime(t int) time.Time { return qT0.Add(time.Duration(t) * time.Hour) }

func orderName(o string) string {
	if o == "alpha" {
		return sts.OrderAlpha
	}
	return o
}

func newRealQueue(conf map[string]qTag) *queue.Tagged {
	var tags []*queue.Tag
	names := make([]string, 0, len(conf))
	for g := range conf {
		names = append(names, g)
	}
	sort.Strings(names)
	for _, g := range names {
		t := conf[g]
		d := time.Duration(0)
		if t.Delay {
			d = time.Hour
		}
		tags = append(tags, &queue.Tag{
			Name: g, Priority: t.Prio, Order: orderName(t.Order),
			ChunkSize: t.Chunk, LastDelay: d,
		})
	}
	tagger := func(group string) string {
		if _, ok := conf[group]; ok {
			return group
		}
		return ""
	}
	return queue.NewTagged(tags, tagger, grpOf)
}

// qClock is the clock of one replayed history: a "tick" lets time pass by moving the time of every
// file (those queued and those pushed later alike, so that no order relation changes) into the past.
type qClock struct {
	shift time.Duration
	files []*mock.File
}

func (c *qClock) tick() {
	const d = 40 * time.Hour // abstract times run up to qT0+29h = now+19h; the delay is one hour
	c.shift += d
	for _, f := range c.files {
		f.Time = f.Time.Add(-d)
	}
}

func realFile(f qFile, clk *qClock) sts.Hashed {
	base := &mock.File{Name: f.Name, Size: f.Size, Time: qTime(f.Time).Add(-clk.shift), Hash: "h-" + f.Name, Done: f.Rec && len(f.Left) == 0}
	clk.files = append(clk.files, base)
	if !f.Rec {
		return base
	}
	var left []*sts.ByteRange
	for _, r := range f.Left {
		left = append(left, &sts.ByteRange{Beg: r[0], End: r[1]})
	}
	return client.VerifNewRecoverFile(base, f.RPrev, left)
}

func doPop(q *queue.Tagged) *qRes {
	s := q.Pop()
	if s == nil {
		return &qRes{}
	}
	off, n := s.GetSlice()
	return &qRes{Name: s.GetName(), Grp: grpOf(s.GetName()), Off: off, Len: n, Prev: s.GetPrev(), Send: s.GetSendSize()}
}

// runHistory executes the inputs of hist on a fresh real queue and returns the
// observed history (full files for pushes, observed results for pops).
func runHistory(conf map[string]qTag, hist []qEvent, defs map[string][]qFile) []qEvent {
	q := newRealQueue(conf)
	clk := &qClock{}
	obs := make([]qEvent, 0, len(hist))
	for _, e := range hist {
		switch e.Op {
		case "tick":
			clk.tick()
			obs = append(obs, qEvent{Op: "tick"})
		case "push":
			files := e.Files
			if files == nil {
				files = defs[e.B]
			}
			hs := make([]sts.Hashed, len(files))
			for i, f := range files {
				hs[i] = realFile(f, clk)
			}
			q.Push(hs)
			obs = append(obs, qEvent{Op: "push", Files: files})
		case "pop":
			obs = append(obs, qEvent{Op: "pop", Res: doPop(q)})
		}
	}
	return obs
}

func writeTrace(w *ndWriter, id int, conf map[string]qTag, obs []qEvent) {
	w.write(qEvent{Op: "reset", Conf: conf, ID: id})
	for _, e := range obs {
		w.write(e)
	}
}

func queueMain(args []string) int {
	if len(args) < 1 {
		return fatal("usage: stsh queue replay|random ...")
	}
	log.InitExternal(quietLogger{})
	qT0 = time.Now().Add(-10 * time.Hour)
	fs := flag.NewFlagSet("queue", flag.ExitOnError)
	in := fs.String("in", "", "scenario file")
	out := fs.String("out", "", "summary json")
	traces := fs.String("traces", "", "trace ndjson for TLC")
	sample := fs.Int("sample", 200, "number of conforming scenarios whose trace is written")
	stride := fs.Int("stride", 1, "replay: write the trace of one conforming scenario in this many")
	n := fs.Int("n", 100, "random: number of histories")
	length := fs.Int("len", 30, "random: operations per history")
	fs.Parse(args[1:])
	rng := rand.New(rand.NewSource(envSeed()))
	w, err := newNDWriter(*traces)
	if err != nil {
		return fatal(err)
	}
	defer w.close()
	switch args[0] {
	case "replay":
		defs := map[string][]qFile{}
		total, diverged, written, pops, nontrivial := 0, 0, 0, 0, 0
		var firstDiv []any
		var samples []any
		err := readLines(*in, func(line []byte) error {
			var probe map[string]json.RawMessage
			if err := json.Unmarshal(line, &probe); err != nil {
				return err
			}
			if d, ok := probe["def"]; ok {
				var m map[string][]qFile
				if err := json.Unmarshal(d, &m); err != nil {
					return err
				}
				for k, v := range m {
					defs[k] = v
				}
				return nil
			}
			var sc qScenario
			if err := json.Unmarshal(line, &sc); err != nil {
				return err
			}
			total++
			obs := runHistory(sc.Conf, sc.Hist, defs)
			div := -1
			chunks := 0
			for i, e := range sc.Hist {
				if e.Op == "pop" {
					pops++
					if obs[i].Res.Name != "" {
						chunks++
					}
					if *e.Res != *obs[i].Res && div < 0 {
						div = i
					}
				}
			}
			if chunks >= 2 {
				nontrivial++
			}
			if div >= 0 {
				diverged++
				if len(firstDiv) < 5 {
					firstDiv = append(firstDiv, map[string]any{"scenario": sc, "index": div + 1, "observed": obs[div].Res})
				}
			}
			if div >= 0 || (rng.Intn(*stride) == 0 && written-diverged < *sample) {
				writeTrace(w, total, sc.Conf, obs)
				written++
				if len(samples) < 3 {
					samples = append(samples, map[string]any{"conf": sc.Conf, "observed": obs})
				}
			}
			return nil
		})
		if err != nil {
			return fatal("replay:", err)
		}
		sum := map[string]any{"scenarios": total, "pops": pops, "diverged": diverged, "traces_written": written, "nontrivial": nontrivial,
			"first_divergences": firstDiv, "samples": samples}
		b, _ := json.MarshalIndent(sum, "", " ")
		os.WriteFile(*out, b, 0o644)
		fmt.Printf("queue replay: scenarios=%d pops=%d diverged=%d traces=%d\n", total, pops, diverged, written)
	case "random":
		events := 0
		for i := 0; i < *n; i++ {
			conf, hist := randomHistory(rng, *length)
			obs := runHistory(conf, hist, nil)
			writeTrace(w, i+1, conf, obs)
			events += len(obs)
		}
		fmt.Printf("queue random: histories=%d events=%d\n", *n, events)
	}
	return 0
}

// randomHistory draws a tag configuration and a Push/Pop history over a pool
// of files that is larger than the model-checked one (direction A).
func randomHistory(rng *rand.Rand, length int) (map[string]qTag, []qEvent) {
	orders := []string{"fifo", "lifo", "alpha", "none"}
	ngroups := 1 + rng.Intn(4)
	conf := map[string]qTag{}
	var groups []string
	for i := 0; i < ngroups; i++ {
		g := fmt.Sprintf("g%d", i+1)
		groups = append(groups, g)
		conf[g] = qTag{Prio: rng.Intn(2), Order: orders[rng.Intn(len(orders))], Chunk: int64(1 + rng.Intn(4)), Delay: rng.Intn(3) == 0}
	}
	restart := rng.Intn(3) == 0 // does this history contain restart files at all
	// per group a pool of names with ranks in string order
	type pf struct {
		name string
		rank int
	}
	pool := map[string][]pf{}
	rank := 0
	for _, g := range groups {
		k := 3 + rng.Intn(4)
		for j := 0; j < k; j++ {
			rank++
			pool[g] = append(pool[g], pf{fmt.Sprintf("%s/f%02d", g, j), rank})
		}
	}
	mk := func() qFile {
		g := groups[rng.Intn(len(groups))]
		p := pool[g][rng.Intn(len(pool[g]))]
		t := rng.Intn(6)
		if rng.Intn(5) == 0 {
			t = 20 + rng.Intn(3)
		}
		f := qFile{Name: p.name, NRank: p.rank, Grp: g, Time: t, Size: int64(1 + rng.Intn(9)), Left: [][]int64{}}
		if restart && rng.Intn(4) == 0 {
			f.Rec = true
			switch rng.Intn(3) {
			case 0: // placeholder
			case 1:
				f.Left = [][]int64{{0, f.Size}}
				f.RPrev = pool[g][rng.Intn(len(pool[g]))].name
			default:
				f.Size += 3
				b := int64(rng.Intn(3))
				m := b + 1 + int64(rng.Intn(2))
				if f.Size < m+2 {
					f.Size = m + 2 // the second missing range is never empty (recover() builds the complement of what is held)
				}
				f.Left = [][]int64{{b, m}, {m + 1, f.Size}}
				f.RPrev = pool[g][rng.Intn(len(pool[g]))].name
			}
		}
		return f
	}
	var hist []qEvent
	ticked := false
	for len(hist) < length {
		if !ticked && len(hist) > 2 && rng.Intn(12) == 0 {
			ticked = true
			hist = append(hist, qEvent{Op: "tick"})
		} else if rng.Intn(5) < 2 {
			k := 1 + rng.Intn(3)
			var files []qFile
			for j := 0; j < k; j++ {
				files = append(files, mk())
			}
			hist = append(hist, qEvent{Op: "push", Files: files})
		} else {
			hist = append(hist, qEvent{Op: "pop"})
		}
	}
	return conf, hist
}
