package main

// Binding of spec/Framing.tla to payload.Bin's Encoder and payload.NewDecoder /
// PartDecoder (in memory), and to http.Client.Transmit -> http.Server.routeData
// -> GateKeeper.Prepare / Receive (over a real HTTP request on loopback).
//
//   stsh framing replay -in scenarios.ndjson -traces t.ndjson -out summary.json [-http]
//
// A scenario gives the part lengths, a cut position (-1 = intact) and reader
// buffer sizes are drawn from VERIF_SEED.  The parts are slices of real files
// (start, middle, end of a file; names with unicode, spaces and both separator
// conventions; mtimes with nanoseconds) packed by the real Bin.

import (
	"bytes"
	"compress/gzip"
	"encoding/json"
	"flag"
	"fmt"
	"io"
	"math/rand"
	"net/http"
	"os"
	"path/filepath"
	"strings"
	"sync"
	"time"

	"github.com/arm-doe/sts"
	"github.com/arm-doe/sts/client"
	stshttp "github.com/arm-doe/sts/http"
	stslog "github.com/arm-doe/sts/log"
	"github.com/arm-doe/sts/payload"
)

func init() { commands["framing"] = framingMain }

type fScenario struct {
	Lens    []int  `json:"lens"`
	Cut     int    `json:"cut"`
	Eof     string `json:"eof"`     // "withdata": the stream returns its last bytes together with io.EOF
	MetaLen int    `json:"metaLen"` // offset to the true header length
}

type fFile struct {
	path, name string
	size       int64
	t          time.Time
	hash       string
}

func (f *fFile) GetPath() string    { return f.path }
func (f *fFile) GetName() string    { return f.name }
func (f *fFile) GetSize() int64     { return f.size }
func (f *fFile) GetTime() time.Time { return f.t }
func (f *fFile) GetMeta() []byte    { return nil }
func (f *fFile) GetHash() string    { return f.hash }

type fChunk struct {
	*fFile
	prev   string
	off, n int64
}

func (c *fChunk) GetPrev() string          { return c.prev }
func (c *fChunk) GetSlice() (int64, int64) { return c.off, c.n }
func (c *fChunk) GetSendSize() int64       { return c.size }

type osReadable struct{ *os.File }

var oddNames = []string{"plain.dat", "dir/sub/file.bin", "with space/ä ö ü.txt", "日本/ファイル.dat", "a b/c d/e f.x", "q/r.s.t"}

// buildPayload makes real files and packs the requested slices into a real Bin.
func buildPayload(dir string, lens []int, rng *rand.Rand) (sts.Payload, [][]byte, []map[string]any) {
	var total int64
	for _, l := range lens {
		total += int64(l)
	}
	bin := payload.NewBin(total+100, func(f sts.File) (sts.Readable, error) {
		fh, err := os.Open(f.GetPath())
		if err != nil {
			return nil, err
		}
		return osReadable{fh}, nil
	}, func(f sts.File) string {
		if strings.Contains(f.GetName(), "dir/") || strings.Contains(f.GetName(), "q/") {
			return "renamed/" + f.GetName()
		}
		return ""
	})
	var want [][]byte
	var descr []map[string]any
	for i, l := range lens {
		// the slice sits at the start, in the middle or at the end of its file
		pad := []int{0, 3, 7}[rng.Intn(3)]
		tail := []int{0, 2}[rng.Intn(2)]
		size := pad + l + tail
		data := make([]byte, size)
		for j := range data {
			data[j] = byte('a' + (i*7+j)%26)
		}
		for j := 0; j < l; j++ {
			data[pad+j] = byte('A' + (i*5+j)%26) // the bytes of the slice are upper case
		}
		name := fmt.Sprintf("%d-%s", i, oddNames[rng.Intn(len(oddNames))])
		p := filepath.Join(dir, "src", name)
		os.MkdirAll(filepath.Dir(p), 0o755)
		os.WriteFile(p, data, 0o644)
		ft := time.Unix(1700000000+int64(i), int64(rng.Intn(1e9)))
		f := &fFile{path: p, name: name, size: int64(size), t: ft, hash: fmt.Sprintf("%032x", i+1)}
		prev := ""
		if i > 0 {
			prev = fmt.Sprintf("pd/%d-prev", i-1)
		}
		b := client.VerifNewBinnable(&fChunk{fFile: f, prev: prev, off: int64(pad), n: int64(l)}, "", false)
		bin.Add(b)
		want = append(want, data[pad:pad+l])
		descr = append(descr, map[string]any{"name": name, "renamed": map[bool]string{true: "renamed/" + name, false: ""}[strings.Contains(name, "dir/") || strings.Contains(name, "q/")],
			"prev": prev, "hash": f.hash, "size": size, "beg": pad, "end": pad + l, "sec": ft.Unix(), "nsec": ft.Nanosecond()})
	}
	return bin, want, descr
}

type chunkReader struct {
	r    io.Reader
	rng  *rand.Rand
	bufs []int
}

func (c *chunkReader) Read(p []byte) (int, error) {
	n := c.bufs[c.rng.Intn(len(c.bufs))]
	if n > len(p) {
		n = len(p)
	}
	return c.r.Read(p[:n])
}

func describeParts(parts []sts.Binned) []map[string]any {
	var out []map[string]any
	for _, p := range parts {
		b, e := p.GetSlice()
		out = append(out, map[string]any{"name": p.GetName(), "renamed": p.GetRenamed(), "prev": p.GetPrev(), "hash": p.GetFileHash(),
			"size": p.GetFileSize(), "beg": b, "end": e, "sec": p.GetFileTime().Unix(), "nsec": p.GetFileTime().Nanosecond()})
	}
	return out
}

// eofWithData makes a reader report io.EOF together with the last bytes it has (as the gzip
// reader and net/http bodies do), instead of in a separate call.
type eofWithData struct {
	r    *bytes.Reader
	rng  *rand.Rand
	bufs []int
}

func (e *eofWithData) Read(p []byte) (int, error) {
	n := e.bufs[e.rng.Intn(len(e.bufs))]
	if n > len(p) {
		n = len(p)
	}
	k, err := e.r.Read(p[:n])
	if err == nil && e.r.Len() == 0 {
		err = io.EOF
	}
	return k, err
}

// wireOf encodes the payload and cuts the stream where the scenario says.
func wireOf(sc *fScenario, bin sts.Payload, rng *rand.Rand) (hdr, data []byte) {
	hdr, _ = bin.EncodeHeader()
	enc := bin.GetEncoder()
	bufs := []int{1, 2, 3, 8, 64}
	var wire bytes.Buffer
	wire.Write(hdr)
	buf := make([]byte, 64)
	for {
		n := bufs[rng.Intn(len(bufs))]
		k, err := enc.Read(buf[:n])
		wire.Write(buf[:k])
		if err != nil {
			break
		}
	}
	enc.Close()
	data = wire.Bytes()
	if sc.Cut >= 0 {
		cut := sc.Cut - 3 + len(hdr) // the model's header has 3 bytes
		if cut < len(hdr) {
			cut = len(hdr)
		}
		if cut < len(data) {
			data = data[:cut]
		}
	}
	return
}

// inMemory runs encoder -> (cut) -> decoder with random buffer sizes.
func inMemory(sc *fScenario, dir string, rng *rand.Rand) map[string]any {
	bin, want, descr := buildPayload(dir, sc.Lens, rng)
	bufs := []int{1, 2, 3, 8, 64}
	hdr, data := wireOf(sc, bin, rng)
	sep := "/"
	if rng.Intn(2) == 1 {
		// the other path-separator convention: the header as a sender on such a system writes it
		sep = "\\"
		var meta []map[string]any
		d := json.NewDecoder(bytes.NewReader(hdr))
		d.UseNumber()
		if d.Decode(&meta) == nil {
			for _, m := range meta {
				for _, k := range []string{"n", "r", "p"} {
					if v, ok := m[k].(string); ok {
						m[k] = strings.ReplaceAll(v, "/", "\\")
					}
				}
			}
			nh, _ := json.Marshal(meta)
			data = append(append([]byte{}, nh...), data[len(hdr):]...)
			hdr = nh
		}
	}
	var stream io.Reader = &chunkReader{bytes.NewReader(data), rng, bufs}
	if sc.Eof == "withdata" {
		stream = &eofWithData{bytes.NewReader(data), rng, bufs}
	}
	dec, err := payload.NewDecoder(len(hdr)+sc.MetaLen, sep, stream)
	ev := map[string]any{"op": "case", "mode": "memory", "sep": sep, "eof": sc.Eof, "lens": sc.Lens, "cut": sc.Cut, "metaLen": sc.MetaLen}
	if err != nil {
		ev["hdrerr"] = err.Error()
		ev["out"] = []any{}
		ev["descr_ok"] = false
		return ev
	}
	got := describeParts(dec.GetParts())
	wantD, _ := json.Marshal(descr)
	gotD, _ := json.Marshal(got)
	ev["descr_ok"] = normJSON(wantD) == normJSON(gotD)
	var outs []map[string]any
	for i := 0; ; i++ {
		r, eof := dec.Next()
		if eof {
			break
		}
		var part bytes.Buffer
		pbuf := make([]byte, 64)
		end := "eof"
		for {
			n := bufs[rng.Intn(len(bufs))]
			k, err := r.Read(pbuf[:n])
			part.Write(pbuf[:k])
			if err == io.EOF {
				break
			}
			if err != nil {
				end = "unexpected"
				break
			}
			if k == 0 {
				end = "stall"
				break
			}
		}
		outs = append(outs, map[string]any{"len": part.Len(), "own": i < len(want) && bytes.Equal(part.Bytes(), want[i]),
			"prefix": i < len(want) && bytes.HasPrefix(want[i], part.Bytes()), "end": end})
		if end != "eof" || part.Len() < sc.Lens[i] {
			break
		}
	}
	ev["out"] = outs
	return ev
}

func normJSON(b []byte) string {
	var g any
	json.Unmarshal(b, &g)
	o, _ := json.Marshal(g)
	return string(o)
}

// recording gatekeeper for the HTTP mode
type recGK struct {
	mu    sync.Mutex
	preps [][]map[string]any
	recvs []map[string]any
}

func (g *recGK) Recover()                            {}
func (g *recGK) CleanNow()                           {}
func (g *recGK) Prune(time.Duration)                 {}
func (g *recGK) Ready() bool                         { return true }
func (g *recGK) Stop(bool)                           {}
func (g *recGK) Scan(string) ([]byte, error)         { return []byte("[]"), nil }
func (g *recGK) Received([]sts.Binned) int           { return 0 }
func (g *recGK) GetFileStatus(string, time.Time) int { return sts.ConfirmNone }
func (g *recGK) Prepare(parts []sts.Binned) {
	g.mu.Lock()
	g.preps = append(g.preps, describeParts(parts))
	g.mu.Unlock()
}
func (g *recGK) Receive(p *sts.Partial, r io.Reader) error {
	b, err := io.ReadAll(r)
	g.mu.Lock()
	g.recvs = append(g.recvs, map[string]any{"name": p.Name, "renamed": p.Renamed, "prev": p.Prev, "hash": p.Hash, "size": p.Size,
		"beg": p.Parts[0].Beg, "end": p.Parts[0].End, "sec": p.Time.Unix(), "nsec": p.Time.Nanosecond(), "bytes": b, "err": fmt.Sprint(err)})
	g.mu.Unlock()
	return err
}

func framingMain(args []string) int {
	if len(args) < 1 || args[0] != "replay" {
		return fatal("usage: stsh framing replay ...")
	}
	stslog.InitExternal(quietLogger{})
	fs := flag.NewFlagSet("framing", flag.ExitOnError)
	in := fs.String("in", "", "scenario file")
	traces := fs.String("traces", "", "trace ndjson")
	out := fs.String("out", "", "summary json")
	useHTTP := fs.Bool("http", false, "also send every intact payload over a real HTTP request")
	fs.Parse(args[1:])
	rng := rand.New(rand.NewSource(envSeed()))
	w, err := newNDWriter(*traces)
	if err != nil {
		return fatal(err)
	}
	defer w.close()
	work, _ := os.MkdirTemp("", "stsh-framing")
	defer os.RemoveAll(work)
	var gk *recGK
	var cl *stshttp.Client
	port := 0
	if *useHTTP {
		gk = &recGK{}
		port = freePort()
		srv := &stshttp.Server{Host: "127.0.0.1", Port: port, DecoderFactory: payload.NewDecoder,
			IsValid: func(string, string) bool { return true }, GateKeepers: map[string]sts.GateKeeper{"fsrc": gk},
			GateKeeperFactory: func(string) sts.GateKeeper { return gk }}
		stop, done := make(chan bool), make(chan bool, 1)
		go srv.Serve(stop, done)
		time.Sleep(300 * time.Millisecond)
		defer func() { close(stop) }()
		cl = &stshttp.Client{SourceName: "fsrc", TargetHost: "127.0.0.1", TargetPort: port, Timeout: 5 * time.Second}
	}
	total, httpCases := 0, 0
	err = readLines(*in, func(line []byte) error {
		var sc fScenario
		if err := json.Unmarshal(line, &sc); err != nil {
			return err
		}
		total++
		dir := filepath.Join(work, fmt.Sprint(total))
		w.write(inMemory(&sc, dir, rng))
		if *useHTTP && sc.Cut < 0 && sc.MetaLen == 0 {
			for _, level := range []int{0, 1 + rng.Intn(9)} {
				httpCases++
				cl.Compression = level
				bin, want, descr := buildPayload(dir, sc.Lens, rng)
				gk.mu.Lock()
				gk.preps, gk.recvs = nil, nil
				gk.mu.Unlock()
				n, err := cl.Transmit(bin)
				gk.mu.Lock()
				ev := map[string]any{"op": "case", "mode": "http", "gzip": level, "lens": sc.Lens, "cut": -1, "metaLen": 0,
					"txerr": fmt.Sprint(err), "txn": n}
				wantD, _ := json.Marshal(descr)
				prepOK := len(gk.preps) == 1 && normJSON(mustJSON(gk.preps[0])) == normJSON(wantD)
				var outs []map[string]any
				recvOK := len(gk.recvs) == len(want)
				for i, r := range gk.recvs {
					b := r["bytes"].([]byte)
					own := i < len(want) && bytes.Equal(b, want[i])
					d := map[string]any{}
					for k, v := range r {
						if k != "bytes" && k != "err" {
							d[k] = v
						}
					}
					meta := i < len(descr) && normJSON(mustJSON(d)) == normJSON(mustJSON(descr[i]))
					outs = append(outs, map[string]any{"len": len(b), "own": own, "prefix": own, "end": map[bool]string{true: "eof", false: "meta"}[meta]})
				}
				gk.mu.Unlock()
				ev["descr_ok"] = prepOK && recvOK
				ev["out"] = outs
				w.write(ev)
			}
		}
		if *useHTTP && sc.Cut >= 3 && sc.MetaLen == 0 {
			// a well-formed request whose body ends early (the sender's encoder gave up): once with a
			// Content-Length, once gzip-compressed and chunked as Transmit sends it
			for _, gz := range []bool{false, true} {
				httpCases++
				bin, want, _ := buildPayload(dir, sc.Lens, rng)
				hdr, data := wireOf(&sc, bin, rng)
				gk.mu.Lock()
				gk.preps, gk.recvs = nil, nil
				gk.mu.Unlock()
				body := data
				if gz {
					var zb bytes.Buffer
					zw, _ := gzip.NewWriterLevel(&zb, 1+rng.Intn(9))
					zw.Write(data)
					zw.Close()
					body = zb.Bytes()
				}
				var rd io.Reader = bytes.NewReader(body)
				if gz {
					rd = struct{ io.Reader }{rd} // unknown length: chunked
				}
				req, _ := http.NewRequest("PUT", fmt.Sprintf("http://127.0.0.1:%d/data?v=1", port), rd)
				req.Header.Add(stshttp.HeaderSourceName, "fsrc")
				req.Header.Add(stshttp.HeaderMetaLen, fmt.Sprint(len(hdr)))
				req.Header.Add(stshttp.HeaderSep, "/")
				if gz {
					req.Header.Add("Content-Encoding", "gzip")
				}
				status := 0
				if resp, err := http.DefaultClient.Do(req); err == nil {
					status = resp.StatusCode
					io.Copy(io.Discard, resp.Body)
					resp.Body.Close()
				}
				gk.mu.Lock()
				var outs []map[string]any
				for i, r := range gk.recvs {
					b := r["bytes"].([]byte)
					own := i < len(want) && bytes.Equal(b, want[i])
					end := "unexpected"
					if r["err"] == "<nil>" {
						end = "eof"
					}
					outs = append(outs, map[string]any{"len": len(b), "own": own, "prefix": i < len(want) && bytes.HasPrefix(want[i], b), "end": end})
				}
				gk.mu.Unlock()
				if outs == nil {
					outs = []map[string]any{}
				}
				w.write(map[string]any{"op": "case", "mode": "httpcut", "gzip": gz, "eof": "withdata", "lens": sc.Lens, "cut": sc.Cut, "metaLen": 0,
					"status": status, "descr_ok": true, "out": outs})
			}
		}
		os.RemoveAll(dir)
		return nil
	})
	if err != nil {
		return fatal("framing replay:", err)
	}
	b, _ := json.MarshalIndent(map[string]any{"scenarios": total, "http_cases": httpCases}, "", " ")
	os.WriteFile(*out, b, 0o644)
	fmt.Printf("framing replay: scenarios=%d http=%d\n", total, httpCases)
	return 0
}

func mustJSON(v any) []byte { b, _ := json.Marshal(v); return b }
