package main

// Binding of spec/Conf.tla to sts.NewConf / ClientConf.propagate / the JSON
// (un)marshalers.
//
//   stsh conf replay -in scenarios.ndjson -traces t.ndjson -out summary.json
//
// Every abstract document is rendered as YAML and as JSON with every concrete
// option of each kind, parsed by the real NewConf, re-encoded with json.Marshal
// and parsed again; the effective values are mapped back to the abstract ones.

import (
	"encoding/json"
	"flag"
	"fmt"
	"os"
	"path/filepath"
	"reflect"
	"strings"
	"time"

	"github.com/arm-doe/sts"
	stslog "github.com/arm-doe/sts/log"
)

func init() { commands["conf"] = confMain }

type cTag struct {
	TNum string `json:"tnum"`
	TBm  string `json:"tbm"`
}

type cSrc struct {
	Num  string `json:"num"`
	Bm   string `json:"bm"`
	Bn   string `json:"bn"`
	Fm   string `json:"fm"`
	Tags []cTag `json:"tags"`
}

type cEffTag struct {
	TNum int  `json:"tnum"`
	TBm  bool `json:"tbm"`
}

type cEff struct {
	Num  int       `json:"num"`
	Bm   bool      `json:"bm"`
	Bn   bool      `json:"bn"`
	Fm   int       `json:"fm"`
	Tags []cEffTag `json:"tags"`
}

type cCase struct {
	Doc  []cSrc `json:"doc"`
	Eff  []cEff `json:"eff"`
	Eff2 []cEff `json:"eff2"`
}

// a concrete option of kind "num": how to write it and how to read it back
type numOpt struct {
	key    string
	vals   [3]string // renderings of Z, V1, V2 (YAML scalar / JSON literal)
	jvals  [3]string
	get    func(s *sts.SourceConf) any
	want   [3]any
	nested bool
}

func dur(s string) time.Duration { d, _ := time.ParseDuration(s); return d }

var numOpts = []numOpt{
	{key: "threads", vals: [3]string{"0", "3", "5"}, get: func(s *sts.SourceConf) any { return s.Threads }, want: [3]any{0, 3, 5}},
	{key: "compress", vals: [3]string{"0", "1", "7"}, get: func(s *sts.SourceConf) any { return s.Compression }, want: [3]any{0, 1, 7}},
	{key: "poll-attempts", vals: [3]string{"0", "2", "9"}, get: func(s *sts.SourceConf) any { return s.PollAttempts }, want: [3]any{0, 2, 9}},
	{key: "min-age", vals: [3]string{`"0s"`, `"5s"`, `"1m30s"`}, get: func(s *sts.SourceConf) any { return s.MinAge }, want: [3]any{dur("0s"), dur("5s"), dur("90s")}},
	{key: "scan-delay", vals: [3]string{`"0s"`, `"250ms"`, `"2h"`}, get: func(s *sts.SourceConf) any { return s.ScanDelay }, want: [3]any{dur("0s"), dur("250ms"), dur("2h")}},
	{key: "bin-size", vals: [3]string{`"0B"`, `"2MiB"`, `"3KiB"`}, get: func(s *sts.SourceConf) any { return int64(s.BinSize) }, want: [3]any{int64(0), int64(2 << 20), int64(3 << 10)}},
	{key: "out-dir", vals: [3]string{`""`, `"/o1"`, `"/o2"`}, get: func(s *sts.SourceConf) any { return s.OutDir }, want: [3]any{"", "/o1", "/o2"}},
	{key: "group-by", vals: [3]string{`""`, `"^(a)"`, `"^(b)"`}, get: func(s *sts.SourceConf) any {
		if s.GroupBy == nil {
			return ""
		}
		return s.GroupBy.String()
	}, want: [3]any{"", "^(a)", "^(b)"}},
	{key: "include", vals: [3]string{`[]`, `["x1"]`, `["x2", "x3"]`}, get: func(s *sts.SourceConf) any {
		var out []string
		for _, p := range s.Include {
			out = append(out, p.String())
		}
		return strings.Join(out, ",")
	}, want: [3]any{"", "x1", "x2,x3"}},
	{key: "key", nested: true, vals: [3]string{`""`, `"k1"`, `"k2"`}, get: func(s *sts.SourceConf) any {
		if s.Target == nil {
			return ""
		}
		return s.Target.Key
	}, want: [3]any{"", "k1", "k2"}},
}

type tagOpt struct {
	key  string
	vals [3]string
	get  func(t *sts.TagConf) any
	want [3]any
}

var tagOpts = []tagOpt{
	{key: "priority", vals: [3]string{"0", "1", "2"}, get: func(t *sts.TagConf) any { return t.Priority }, want: [3]any{0, 1, 2}},
	{key: "order", vals: [3]string{`""`, `"lifo"`, `"none"`}, get: func(t *sts.TagConf) any { return t.Order }, want: [3]any{"", "lifo", "none"}},
	{key: "method", vals: [3]string{`""`, `"http"`, `"disk"`}, get: func(t *sts.TagConf) any { return t.Method }, want: [3]any{"", "http", "disk"}},
	{key: "chunk-size", vals: [3]string{`"0B"`, `"1KiB"`, `"2KiB"`}, get: func(t *sts.TagConf) any { return int64(t.ChunkSize) }, want: [3]any{int64(0), int64(1 << 10), int64(2 << 10)}},
	{key: "last-delay", vals: [3]string{`"0s"`, `"5s"`, `"7s"`}, get: func(t *sts.TagConf) any { return t.LastDelay }, want: [3]any{dur("0s"), dur("5s"), dur("7s")}},
	{key: "delete-delay", vals: [3]string{`"0s"`, `"1h"`, `"90m"`}, get: func(t *sts.TagConf) any { return t.DeleteDelay }, want: [3]any{dur("0s"), dur("1h"), dur("90m")}},
}

func widx(w string) int {
	switch w {
	case "V1":
		return 1
	case "V2":
		return 2
	}
	return 0
}

func absOf(got any, want [3]any) int {
	for i, w := range want {
		if reflect.DeepEqual(got, w) {
			return i
		}
	}
	return 99
}

// render writes the document; format "yaml" or "json" (JSON is valid YAML flow
// style, so one renderer serves both; YAML gets block style).
func render(doc []cSrc, no numOpt, to tagOpt, format string) string {
	var sb strings.Builder
	q := func(s string) string { return s }
	if format == "json" {
		sb.WriteString(`{"OUT": {"dirs": {"cache": ".sts", "logs": "l", "out": "o"}, "sources": [`)
		for i, s := range doc {
			if i > 0 {
				sb.WriteString(",")
			}
			fields := []string{fmt.Sprintf(`"name": "s%d"`, i+1)}
			tgt := `"name": "t", "http-host": "h:1"`
			if no.nested && s.Num != "A" {
				tgt += fmt.Sprintf(`, "%s": %s`, no.key, no.vals[widx(s.Num)])
			}
			fields = append(fields, `"target": {`+tgt+`}`)
			if !no.nested && s.Num != "A" {
				fields = append(fields, fmt.Sprintf(`"%s": %s`, no.key, no.vals[widx(s.Num)]))
			}
			if s.Bm != "A" {
				fields = append(fields, fmt.Sprintf(`"stat-payload": "%v"`, s.Bm == "V1"))
			}
			if s.Bn != "A" {
				fields = append(fields, fmt.Sprintf(`"include-hidden": "%v"`, s.Bn == "V1"))
			}
			if s.Fm != "A" {
				fields = append(fields, fmt.Sprintf(`"error-backoff": "%s"`, [3]string{"0", "1.5", "2.5"}[widx(s.Fm)]))
			}
			if len(s.Tags) > 0 {
				var tags []string
				for j, t := range s.Tags {
					tf := []string{}
					if j == 0 {
						tf = append(tf, `"pattern": "DEFAULT"`)
					} else {
						tf = append(tf, fmt.Sprintf(`"pattern": "^t%d"`, j))
					}
					if t.TNum != "A" {
						tf = append(tf, fmt.Sprintf(`"%s": %s`, to.key, to.vals[widx(t.TNum)]))
					}
					if t.TBm != "A" {
						tf = append(tf, fmt.Sprintf(`"delete": "%v"`, t.TBm == "V1"))
					}
					tags = append(tags, "{"+strings.Join(tf, ", ")+"}")
				}
				fields = append(fields, `"tags": [`+strings.Join(tags, ", ")+`]`)
			}
			sb.WriteString("{" + strings.Join(fields, ", ") + "}")
		}
		sb.WriteString("]}}")
		return sb.String()
	}
	_ = q
	sb.WriteString("OUT:\n  dirs:\n    cache: .sts\n    logs: l\n    out: o\n  sources:\n")
	for i, s := range doc {
		sb.WriteString(fmt.Sprintf("    - name: s%d\n      target:\n        name: t\n        http-host: \"h:1\"\n", i+1))
		if no.nested && s.Num != "A" {
			sb.WriteString(fmt.Sprintf("        %s: %s\n", no.key, no.vals[widx(s.Num)]))
		}
		if !no.nested && s.Num != "A" {
			sb.WriteString(fmt.Sprintf("      %s: %s\n", no.key, no.vals[widx(s.Num)]))
		}
		if s.Bm != "A" {
			sb.WriteString(fmt.Sprintf("      stat-payload: %v\n", s.Bm == "V1"))
		}
		if s.Bn != "A" {
			sb.WriteString(fmt.Sprintf("      include-hidden: %v\n", s.Bn == "V1"))
		}
		if s.Fm != "A" {
			sb.WriteString(fmt.Sprintf("      error-backoff: %s\n", [3]string{"0", "1.5", "2.5"}[widx(s.Fm)]))
		}
		if len(s.Tags) > 0 {
			sb.WriteString("      tags:\n")
			for j, t := range s.Tags {
				if j == 0 {
					sb.WriteString("        - pattern: DEFAULT\n")
				} else {
					sb.WriteString(fmt.Sprintf("        - pattern: \"^t%d\"\n", j))
				}
				if t.TNum != "A" {
					sb.WriteString(fmt.Sprintf("          %s: %s\n", to.key, to.vals[widx(t.TNum)]))
				}
				if t.TBm != "A" {
					sb.WriteString(fmt.Sprintf("          delete: %v\n", t.TBm == "V1"))
				}
			}
		}
	}
	return sb.String()
}

func effOf(c *sts.Conf, no numOpt, to tagOpt) []cEff {
	out := []cEff{}
	for _, s := range c.Client.Sources {
		e := cEff{Num: absOf(no.get(s), no.want), Bm: s.StatPayload, Bn: s.IncludeHidden,
			Fm: absOf(s.ErrorBackoff, [3]any{0.0, 1.5, 2.5}), Tags: []cEffTag{}}
		for _, t := range s.Tags {
			e.Tags = append(e.Tags, cEffTag{TNum: absOf(to.get(t), to.want), TBm: t.Delete})
		}
		out = append(out, e)
	}
	return out
}

func confMain(args []string) int {
	if len(args) < 1 || args[0] != "replay" {
		return fatal("usage: stsh conf replay ...")
	}
	stslog.InitExternal(quietLogger{})
	fs := flag.NewFlagSet("conf", flag.ExitOnError)
	in := fs.String("in", "", "scenario file")
	traces := fs.String("traces", "", "trace ndjson")
	out := fs.String("out", "", "summary json")
	nopts := fs.Int("opts", 0, "concrete options per document (0 = all), rotating with the document index")
	fs.Parse(args[1:])
	w, err := newNDWriter(*traces)
	if err != nil {
		return fatal(err)
	}
	defer w.close()
	work, _ := os.MkdirTemp("", "stsh-conf")
	defer os.RemoveAll(work)
	total, cases, diverged, errs := 0, 0, 0, 0
	var firstDiv []any
	err = readLines(*in, func(line []byte) error {
		var c cCase
		if err := json.Unmarshal(line, &c); err != nil {
			return err
		}
		total++
		hasTags := false
		for _, s := range c.Doc {
			if len(s.Tags) > 0 {
				hasTags = true
			}
		}
		for kk := 0; kk < len(numOpts); kk++ {
			if *nopts > 0 && kk >= *nopts {
				break
			}
			k := kk
			if *nopts > 0 {
				k = (total*(*nopts) + kk) % len(numOpts)
			}
			no := numOpts[k]
			to := tagOpts[k%len(tagOpts)]
			// documents without a "num" value / without tags need one concrete option only
			allA := true
			for _, s := range c.Doc {
				if s.Num != "A" {
					allA = false
				}
			}
			if kk > 0 && allA && (!hasTags || kk >= len(tagOpts)) {
				continue
			}
			for _, format := range []string{"yaml", "json"} {
				cases++
				p := filepath.Join(work, "c."+format)
				os.WriteFile(p, []byte(render(c.Doc, no, to, format)), 0o644)
				conf, err := sts.NewConf(p)
				ev := map[string]any{"op": "case", "doc": c.Doc, "opt": no.key, "topt": to.key, "fmt": format}
				if err != nil || conf == nil || conf.Client == nil {
					errs++
					ev["err"] = fmt.Sprint(err)
					ev["eff"], ev["eff2"] = []cEff{}, []cEff{}
					w.write(ev)
					continue
				}
				eff := effOf(conf, no, to)
				b, _ := json.Marshal(map[string]any{"OUT": conf.Client})
				p2 := filepath.Join(work, "c2.json")
				os.WriteFile(p2, b, 0o644)
				conf2, err := sts.NewConf(p2)
				eff2 := []cEff{}
				if err == nil && conf2 != nil && conf2.Client != nil {
					eff2 = effOf(conf2, no, to)
				} else {
					ev["err2"] = fmt.Sprint(err)
				}
				ev["eff"], ev["eff2"] = eff, eff2
				w.write(ev)
				if !reflect.DeepEqual(eff, c.Eff) || !reflect.DeepEqual(eff2, c.Eff2) {
					diverged++
					if len(firstDiv) < 4 {
						firstDiv = append(firstDiv, map[string]any{"doc": c.Doc, "opt": no.key, "topt": to.key, "fmt": format,
							"predicted": c.Eff, "observed": eff, "predicted2": c.Eff2, "observed2": eff2})
					}
				}
			}
		}
		return nil
	})
	if err != nil {
		return fatal("conf replay:", err)
	}
	b, _ := json.MarshalIndent(map[string]any{"scenarios": total, "cases": cases, "diverged": diverged, "parse_errors": errs, "first_divergences": firstDiv}, "", " ")
	os.WriteFile(*out, b, 0o644)
	fmt.Printf("conf replay: documents=%d cases=%d diverged=%d errors=%d\n", total, cases, diverged, errs)
	return 0
}
