package main

// Binding of spec/Gate.tla to the real `sts` binary running as a receiver
// (level L3: main/server.go wiring, standardValidator, http.Server routes,
// stage.Stage).
//
//   stsh gate run -bin <sts binary> -in scenarios.ndjson -traces t.ndjson -out summary.json
//
// One server process per configuration (source list x key list) in a sandbox
// directory; its roots are a proper sub-directory of the sandbox so that any
// path that escapes them is visible.  Before and after every request the whole
// sandbox is listed (path, size, MD5); the difference is what the request
// touched.  "Not ready" requests are sent while start-up recovery is parked at a
// pause point of the hook package.

import (
	"bytes"
	"crypto/md5"
	"encoding/json"
	"flag"
	"fmt"
	"io"
	"net"
	"net/http"
	"net/url"
	"os"
	"os/exec"
	"path/filepath"
	"sort"
	"strings"
	"sync"
	"syscall"
	"time"
	"unsafe"
)

func init() { commands["gate"] = gateMain }

type gReq struct {
	Route  string   `json:"route"`
	Src    string   `json:"src"`
	Key    string   `json:"key"`
	Name   []string `json:"name"`
	Ren    []string `json:"ren"`
	Path   []string `json:"path"`
	Exists bool     `json:"exists"`
}

type gCase struct {
	Sources []string `json:"sources"`
	Keys    []string `json:"keys"`
	Ready   bool     `json:"ready"`
	Pause   string   `json:"pause,omitempty"` // pause point used for ready = false
	Req     gReq     `json:"req"`
	Variant int      `json:"variant"` // rendering variant
}

type gTouch struct {
	Area    string `json:"area"`
	Dir     string `json:"dir"`
	Escaped bool   `json:"escaped"`
	Path    string `json:"path"`
}

type gServer struct {
	watch *fsWatch
	cmd   *exec.Cmd
	sb    string // sandbox
	root  string // sb/root
	port  int
	pause string // pause file
}

func freePort() int {
	for {
		l, err := net.Listen("tcp", "127.0.0.1:0")
		if err != nil {
			continue
		}
		p := l.Addr().(*net.TCPAddr).Port
		l.Close()
		l2, err := net.Listen("tcp", fmt.Sprintf("127.0.0.1:%d", p+1))
		if err != nil {
			continue
		}
		l2.Close()
		return p
	}
}

func yamlList(xs []string) string {
	q := make([]string, len(xs))
	for i, x := range xs {
		q[i] = fmt.Sprintf("%q", x)
	}
	return "[" + strings.Join(q, ", ") + "]"
}

func startGateServer(bin, work string, sources, keys []string, pauseAt string, preStage []string) (*gServer, error) {
	sb, _ := os.MkdirTemp(work, "sb")
	root := filepath.Join(sb, "top", "root")
	os.MkdirAll(root, 0o755)
	os.MkdirAll(filepath.Join(sb, "top", "outside"), 0o755)
	os.WriteFile(filepath.Join(sb, "top", "outside", "canary.txt"), []byte("canary"), 0o644)
	os.WriteFile(filepath.Join(sb, "canary0.txt"), []byte("canary0"), 0o644)
	for _, d := range []string{"stage", "final", "serve", "logs"} {
		os.MkdirAll(filepath.Join(root, d), 0o755)
	}
	// a partly received file per pre-staged source, so that start-up recovery has work
	for _, s := range preStage {
		dir := filepath.Join(root, "stage", strings.ReplaceAll(s, "/", "--"))
		os.MkdirAll(dir, 0o755)
		os.WriteFile(filepath.Join(dir, "old.dat.part"), make([]byte, 8), 0o644)
		os.WriteFile(filepath.Join(dir, "old.dat.cmp"), []byte(`{"path":"old.dat","renamed":"","prev":"","time":"1700000000+0","size":8,"hash":"00","src":"`+s+`","parts":[{"b":0,"e":4}]}`), 0o644)
	}
	port := freePort()
	conf := "IN:\n"
	if len(sources) > 0 {
		conf += "  sources: " + yamlList(sources) + "\n"
	}
	if len(keys) > 0 {
		conf += "  keys: " + yamlList(keys) + "\n"
	}
	conf += fmt.Sprintf("  dirs:\n    logs: logs\n    stage: stage\n    final: final\n    serve: serve\n  server:\n    http-host: 127.0.0.1\n    http-port: %d\n", port)
	cp := filepath.Join(root, "conf.yaml")
	os.WriteFile(cp, []byte(conf), 0o644)
	g := &gServer{sb: sb, root: root, port: port, pause: filepath.Join(sb, "pause")}
	cmd := exec.Command(bin, "-root", root, "-conf", cp, "-mode", "in")
	cmd.Dir = root
	cmd.Env = append(os.Environ(), "STS_HOME="+root)
	if pauseAt != "" {
		os.WriteFile(g.pause, []byte("x"), 0o644)
		cmd.Env = append(cmd.Env, "VERIF_PAUSE_AT="+pauseAt, "VERIF_PAUSE_FILE="+g.pause)
	}
	g.watch = newFsWatch(sb)
	lf, _ := os.Create(filepath.Join(sb, "server.log"))
	cmd.Stdout, cmd.Stderr = lf, lf
	if err := cmd.Start(); err != nil {
		return nil, err
	}
	g.cmd = cmd
	deadline := time.Now().Add(10 * time.Second)
	for time.Now().Before(deadline) {
		c, err := net.DialTimeout("tcp", fmt.Sprintf("127.0.0.1:%d", port), 200*time.Millisecond)
		if err == nil {
			c.Close()
			if pauseAt != "" {
				// wait until the pause point was reached
				for time.Now().Before(deadline) {
					if _, err := os.Stat(g.pause + ".reached"); err == nil {
						break
					}
					time.Sleep(5 * time.Millisecond)
				}
			}
			return g, nil
		}
		time.Sleep(20 * time.Millisecond)
	}
	g.stop()
	return nil, fmt.Errorf("server did not come up")
}

func (g *gServer) stop() {
	if g.cmd != nil && g.cmd.Process != nil {
		g.cmd.Process.Kill()
		g.cmd.Wait()
	}
	if g.watch != nil {
		g.watch.close()
	}
	os.RemoveAll(g.sb)
}

// listing of the sandbox: path -> "size:md5" (messages log and server.log excluded)
func (g *gServer) listing() map[string]string {
	out := map[string]string{}
	filepath.Walk(g.sb, func(p string, info os.FileInfo, err error) error {
		if err != nil {
			return nil
		}
		rel, _ := filepath.Rel(g.sb, p)
		if rel == "server.log" || strings.HasPrefix(rel, ".sync") || strings.HasPrefix(rel, "pause") || strings.HasPrefix(rel, filepath.Join("top", "root", "logs", "messages")) {
			return nil
		}
		if info.IsDir() {
			out[rel+"/"] = "dir"
			return nil
		}
		b, _ := os.ReadFile(p)
		out[rel] = fmt.Sprintf("%d:%x", len(b), md5.Sum(b))
		return nil
	})
	return out
}

func (g *gServer) stable() map[string]string {
	prev := g.listing()
	same := 0
	for i := 0; i < 600 && same < 4; i++ {
		time.Sleep(3 * time.Millisecond)
		cur := g.listing()
		if len(cur) == len(prev) {
			eq := true
			for k, v := range cur {
				if prev[k] != v {
					eq = false
					break
				}
			}
			if eq {
				same++
				continue
			}
		}
		same = 0
		prev = cur
	}
	return prev
}

func classify(rel, src string) gTouch {
	want := strings.ReplaceAll(src, "/", "--")
	t := gTouch{Path: rel, Area: "outside", Escaped: true}
	parts := strings.Split(strings.TrimSuffix(rel, "/"), string(os.PathSeparator))
	if len(parts) >= 3 && parts[0] == "top" && parts[1] == "root" {
		area := parts[2]
		rest := parts[3:]
		switch area {
		case "stage", "final", "serve":
			t.Area = area
		case "logs":
			t.Area = "log"
			if len(rest) > 0 && rest[0] == "incoming_from" {
				rest = rest[1:]
			}
		default:
			return t
		}
		if len(rest) == 0 {
			// the area directory itself (created on demand) is not a file of anybody
			t.Dir, t.Escaped = src, false
			return t
		}
		t.Dir = strings.ReplaceAll(rest[0], "--", "/")
		t.Escaped = rest[0] != want
		if t.Escaped {
			t.Dir = src // reported against the requesting source, flagged escaped
		}
	}
	return t
}

func renderSegs(segs []string, sep string) string {
	var out []string
	abs := false
	for _, s := range segs {
		if s == "ABS" {
			abs = true
			continue
		}
		if s == "BAD" {
			s = "b d" // a segment outside the whitelist of the static route
		}
		out = append(out, s)
	}
	r := strings.Join(out, sep)
	if abs {
		r = sep + r
	}
	return r
}

// uniq makes the leaf name of a path unique per case so that every request is a
// first transmission (".." and markers are kept)
func uniq(segs []string, n int) []string {
	out := append([]string{}, segs...)
	for i := len(out) - 1; i >= 0; i-- {
		if out[i] != ".." && out[i] != "." && out[i] != "" && out[i] != "ABS" && out[i] != "BAD" {
			out[i] = fmt.Sprintf("%s%d", out[i], n)
			break
		}
	}
	return out
}

func (g *gServer) send(c *gCase, n int) (int, error) {
	base := fmt.Sprintf("http://127.0.0.1:%d", g.port)
	r := c.Req
	sep := "/"
	hdr := http.Header{}
	q := url.Values{}
	inQuery := c.Variant%2 == 1
	if c.Variant%4 >= 2 && (r.Route == "data" || r.Route == "validate" || r.Route == "data-recovery") {
		sep = "\\"
		hdr.Set("X-STS-Sep", "\\")
	}
	if inQuery {
		if r.Src != "" {
			q.Set("source", r.Src)
		}
		if r.Key != "" {
			q.Set("key", r.Key)
		}
	} else {
		if r.Src != "" {
			hdr.Set("X-STS-SrcName", r.Src)
		}
		if r.Key != "" {
			hdr.Set("X-STS-Key", r.Key)
		}
	}
	var method, path string
	var body []byte
	content := []byte(fmt.Sprintf("GATE%04d", n%10000))
	name := renderSegs(uniq(r.Name, n), sep)
	ren := renderSegs(uniq(r.Ren, n), sep)
	meta := fmt.Sprintf(`[{"n":%q,"r":%q,"p":"","f":"%x","t":"1700000000+5","s":8,"b":0,"e":8}]`, name, ren, md5.Sum(content))
	switch r.Route {
	case "data":
		method, path = "PUT", "/data"
		hdr.Set("X-STS-MetaLen", fmt.Sprint(len(meta)))
		body = append([]byte(meta), content...)
	case "data-recovery":
		method, path = "PUT", "/data-recovery"
		body = []byte(meta)
	case "validate":
		method, path = "POST", "/validate"
		body = []byte(fmt.Sprintf(`[{"n":%q,"b":1700000000}]`, name))
	case "partials":
		method, path = "GET", "/partials"
		q.Set("v", "1")
	case "static-get", "static-delete":
		method = "GET"
		if r.Route == "static-delete" {
			method = "DELETE"
		}
		p := renderSegs(r.Path, "/")
		switch c.Variant % 3 {
		case 1:
			p = strings.ReplaceAll(p, "..", "%2e%2e")
		case 2:
			p = strings.ReplaceAll(p, "../", "..%2f")
		}
		path = "/static/" + p
	}
	u := base + path
	if len(q) > 0 {
		u += "?" + q.Encode()
	}
	req, err := http.NewRequest(method, u, bytes.NewReader(body))
	if err != nil {
		return 0, err
	}
	if strings.Contains(path, "%") {
		req.URL.Opaque = "//" + req.URL.Host + path
		if len(q) > 0 {
			req.URL.RawQuery = q.Encode()
		}
	}
	for k, v := range hdr {
		req.Header[k] = v
	}
	cl := &http.Client{Timeout: 5 * time.Second, CheckRedirect: func(*http.Request, []*http.Request) error { return http.ErrUseLastResponse }}
	resp, err := cl.Do(req)
	if err != nil {
		return 0, err
	}
	io.Copy(io.Discard, resp.Body)
	resp.Body.Close()
	return resp.StatusCode, nil
}

func gateMain(args []string) int {
	if len(args) < 1 || args[0] != "run" {
		return fatal("usage: stsh gate run ...")
	}
	fs := flag.NewFlagSet("gate", flag.ExitOnError)
	bin := fs.String("bin", "", "sts binary built with -tags verif")
	in := fs.String("in", "", "scenario file")
	traces := fs.String("traces", "", "trace ndjson")
	out := fs.String("out", "", "summary json")
	fs.Parse(args[1:])
	w, err := newNDWriter(*traces)
	if err != nil {
		return fatal(err)
	}
	defer w.close()
	work, _ := os.MkdirTemp("", "stsh-gate")
	defer os.RemoveAll(work)
	// group the cases by server configuration
	groups := map[string][]*gCase{}
	var order []string
	err = readLines(*in, func(line []byte) error {
		var c gCase
		if err := json.Unmarshal(line, &c); err != nil {
			return err
		}
		k := fmt.Sprintf("%v|%v|%v|%s", c.Sources, c.Keys, c.Ready, c.Pause)
		if _, ok := groups[k]; !ok {
			order = append(order, k)
		}
		groups[k] = append(groups[k], &c)
		return nil
	})
	if err != nil {
		return fatal(err)
	}
	total, failed, touching := 0, 0, 0
	for _, k := range order {
		cs := groups[k]
		pause := ""
		var pre []string
		if !cs[0].Ready {
			pause = cs[0].Pause
			if pause == "" {
				pause = "stage.rec.walked"
			}
			pre = []string{"s1", "s2", "zz", "s1/x"}
		}
		g, err := startGateServer(*bin, work, cs[0].Sources, cs[0].Keys, pause, pre)
		if err != nil {
			return fatal("gate:", err)
		}
		restart := false
		for _, c := range cs {
			total++
			if restart {
				// an accepted request leaves asynchronous work (validation, finalization, wait
				// timers) whose later effects must not be attributed to the next request
				g.stop()
				if g, err = startGateServer(*bin, work, cs[0].Sources, cs[0].Keys, pause, pre); err != nil {
					return fatal("gate:", err)
				}
				restart = false
			}
			// files the static route may find
			for _, s := range []string{"s1", "s2", "zz", "S1"} {
				d := filepath.Join(g.root, "serve", s)
				if c.Req.Exists {
					os.MkdirAll(filepath.Join(d, "d"), 0o755)
					os.WriteFile(filepath.Join(d, "x"), []byte("served"), 0o644)
					os.WriteFile(filepath.Join(d, "d", "x"), []byte("served"), 0o644)
				} else {
					os.RemoveAll(d)
				}
			}
			before := g.listing()
			g.watch.reset()
			status, err := g.send(c, total)
			if err != nil {
				failed++
				status = 0
			}
			after := g.stable()
			touched := []gTouch{}
			seen := map[string]bool{}
			keys := map[string]bool{}
			for p := range before {
				keys[p] = true
			}
			for p := range after {
				keys[p] = true
			}
			var ps []string
			for p := range keys {
				if before[p] != after[p] {
					ps = append(ps, p)
				}
			}
			// files that were created, written, renamed or removed while the request was served,
			// also when nothing of it is left afterwards (a staged file outside its root that was
			// moved on, a foreign file that was replaced by an equal one)
			for _, p := range g.watch.events() {
				if before[p] == after[p] {
					ps = append(ps, p)
				}
			}
			sort.Strings(ps)
			for _, p := range ps {
				t := classify(p, c.Req.Src)
				id := fmt.Sprintf("%s|%s|%v", t.Area, t.Dir, t.Escaped)
				if !seen[id] {
					seen[id] = true
					touched = append(touched, t)
				}
			}
			if len(touched) > 0 {
				touching++
				restart = true
			}
			w.write(map[string]any{"op": "req", "sources": c.Sources, "keys": c.Keys, "req": c.Req, "ready": c.Ready, "early": c.Pause == "stage.rec.begin",
				"variant": c.Variant, "ans": map[string]any{"status": fmt.Sprint(status), "touched": touched}})
		}
		g.stop()
	}
	b, _ := json.MarshalIndent(map[string]any{"cases": total, "transport_failures": failed, "touching": touching}, "", " ")
	os.WriteFile(*out, b, 0o644)
	fmt.Printf("gate run: cases=%d touching=%d transport_failures=%d\n", total, touching, failed)
	return 0
}

// fsWatch records file-system events (inotify) in every directory of the sandbox that exists when
// a request is sent.
type fsWatch struct {
	fd    int
	root  string
	mu    sync.Mutex
	wds   map[int32]string
	seen  map[string]bool
	nsync int
}

const watchMask = syscall.IN_CREATE | syscall.IN_MODIFY | syscall.IN_DELETE | syscall.IN_MOVED_FROM | syscall.IN_MOVED_TO

func newFsWatch(root string) *fsWatch {
	fd, err := syscall.InotifyInit1(syscall.IN_CLOEXEC)
	if err != nil {
		return &fsWatch{fd: -1, root: root, wds: map[int32]string{}, seen: map[string]bool{}}
	}
	w := &fsWatch{fd: fd, root: root, wds: map[int32]string{}, seen: map[string]bool{}}
	go w.loop()
	return w
}

func (w *fsWatch) addDirs() {
	if w.fd < 0 {
		return
	}
	filepath.Walk(w.root, func(p string, info os.FileInfo, err error) error {
		if err == nil && info.IsDir() {
			if wd, err := syscall.InotifyAddWatch(w.fd, p, watchMask); err == nil {
				w.mu.Lock()
				w.wds[int32(wd)] = p
				w.mu.Unlock()
			}
		}
		return nil
	})
}

func (w *fsWatch) loop() {
	buf := make([]byte, 64*1024)
	for {
		n, err := syscall.Read(w.fd, buf)
		if err != nil || n <= 0 {
			return
		}
		for off := 0; off+syscall.SizeofInotifyEvent <= n; {
			ev := (*syscall.InotifyEvent)(unsafe.Pointer(&buf[off]))
			name := ""
			if ev.Len > 0 {
				b := buf[off+syscall.SizeofInotifyEvent : off+syscall.SizeofInotifyEvent+int(ev.Len)]
				name = strings.TrimRight(string(b), "\x00")
			}
			w.mu.Lock()
			if dir, ok := w.wds[ev.Wd]; ok && name != "" {
				rel, _ := filepath.Rel(w.root, filepath.Join(dir, name))
				w.seen[rel] = true
			}
			w.mu.Unlock()
			off += syscall.SizeofInotifyEvent + int(ev.Len)
		}
	}
}

// reset (re)arms the watches on every directory that exists now and forgets earlier events.
func (w *fsWatch) reset() {
	w.addDirs()
	w.sync()
	w.mu.Lock()
	w.seen = map[string]bool{}
	w.mu.Unlock()
}

// sync waits until every event raised so far has been read: events of one inotify instance are
// delivered in order, so it is enough to see the event of a sentinel file created now.
func (w *fsWatch) sync() {
	if w.fd < 0 {
		return
	}
	w.nsync++
	name := fmt.Sprintf(".sync%d", w.nsync)
	os.WriteFile(filepath.Join(w.root, name), nil, 0o644)
	os.Remove(filepath.Join(w.root, name))
	for i := 0; i < 2000; i++ {
		w.mu.Lock()
		ok := w.seen[name]
		w.mu.Unlock()
		if ok {
			return
		}
		time.Sleep(500 * time.Microsecond)
	}
}

func (w *fsWatch) events() []string {
	w.sync()
	w.mu.Lock()
	defer w.mu.Unlock()
	var out []string
	for p := range w.seen {
		if p == "server.log" || strings.HasPrefix(p, "pause") || strings.HasPrefix(p, ".sync") || strings.HasPrefix(p, filepath.Join("top", "root", "logs", "messages")) {
			continue
		}
		out = append(out, p)
	}
	sort.Strings(out)
	return out
}

func (w *fsWatch) close() {
	if w.fd >= 0 {
		syscall.Close(w.fd)
	}
}
