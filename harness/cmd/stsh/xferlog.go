package main

// Binding of spec/XferLog.tla to log.FileIO.
//
//   stsh xferlog replay -in scenarios.ndjson -traces t.ndjson -out summary.json
//   stsh xferlog random -n N -traces t.ndjson
//
// Abstract day k of a history is the real date  today - (last - k); records of the
// last day go through the real Sent / Received, records of earlier days are
// placed in their day files in the same line format.  A time <<day, tod>> is
// 06:00 (tod 0) or 18:00 (tod 1) local time of that date.

import (
	"encoding/json"
	"flag"
	"fmt"
	"math/rand"
	"os"
	"path/filepath"
	"strings"
	"time"

	"github.com/arm-doe/sts"
	stslog "github.com/arm-doe/sts/log"
)

func init() { commands["xferlog"] = xferlogMain }

type chars []string

func (c chars) String() string { return strings.Join(c, "") }
func toChars(s string) chars {
	out := chars{}
	for _, r := range s {
		out = append(out, string(r))
	}
	return out
}

type xRec struct {
	Name chars `json:"name"`
	Ren  chars `json:"ren"`
	Hash chars `json:"hash"`
	Day  int   `json:"day"`
}

type xParsed struct {
	Ok   bool  `json:"ok"`
	Name chars `json:"name"`
	Ren  chars `json:"ren"`
	Hash chars `json:"hash"`
}

type xEvent struct {
	Op   string `json:"op"`
	Kind string `json:"kind,omitempty"`
	ID   int    `json:"id,omitempty"`
	Rec  *xRec  `json:"rec,omitempty"`
	Name chars  `json:"name,omitempty"`
	Hash chars  `json:"hash,omitempty"`
	From []int  `json:"from,omitempty"`
	To   []int  `json:"to,omitempty"`
	Res  any    `json:"res,omitempty"`
}

type xScenario struct {
	Kind string            `json:"kind"`
	Hist []json.RawMessage `json:"hist"`
}

type xFile struct{ name, ren, hash string }

func (f xFile) GetName() string    { return f.name }
func (f xFile) GetRenamed() string { return f.ren }
func (f xFile) GetSize() int64     { return 8 }
func (f xFile) GetHash() string    { return f.hash }
func (f xFile) TimeMs() int64      { return 5 }

var _ sts.Sent = xFile{}

func runXferScenario(kind string, hist []xEvent, root string) []xEvent {
	last := 1
	for _, e := range hist {
		if e.Op == "nextday" {
			last++
		}
	}
	now := time.Now()
	dateOf := func(day int) time.Time {
		d := now.AddDate(0, 0, day-last)
		return time.Date(d.Year(), d.Month(), d.Day(), 12, 0, 0, 0, time.Local)
	}
	at := func(t []int) time.Time {
		d := dateOf(t[0])
		h := 6
		if t[1] == 1 {
			h = 18
		}
		return time.Date(d.Year(), d.Month(), d.Day(), h, 0, 0, 0, time.Local)
	}
	lg := stslog.NewFileIO(root, nil, nil, false)
	out := []xEvent{}
	today := 1
	for _, e := range hist {
		switch e.Op {
		case "nextday":
			today++
			out = append(out, xEvent{Op: "nextday"})
		case "write":
			r := *e.Rec
			r.Day = today
			f := xFile{r.Name.String(), r.Ren.String(), r.Hash.String()}
			if today == last {
				if kind == "recv" {
					lg.Received(f)
				} else {
					lg.Sent(f)
				}
			} else {
				d := dateOf(today)
				p := filepath.Join(root, fmt.Sprintf("%04d%02d", d.Year(), d.Month()), fmt.Sprintf("%02d", d.Day()))
				os.MkdirAll(filepath.Dir(p), 0o755)
				fh, _ := os.OpenFile(p, os.O_RDWR|os.O_APPEND|os.O_CREATE, 0o644)
				if kind == "recv" {
					fmt.Fprintf(fh, "%s:%s:%s:%d:%d:\n", f.name, f.ren, f.hash, 8, d.Unix())
				} else {
					fmt.Fprintf(fh, "%s:%s:%d:%d: %d ms\n", f.name, f.hash, 8, d.Unix(), 5)
				}
				fh.Close()
			}
			out = append(out, xEvent{Op: "write", Rec: &r})
		case "search":
			var res bool
			if kind == "recv" {
				res = lg.WasReceived(e.Name.String(), e.Hash.String(), at(e.From), at(e.To))
			} else {
				res = lg.WasSent(e.Name.String(), e.Hash.String(), at(e.From), at(e.To))
			}
			ev := e
			ev.Res = res
			out = append(out, ev)
		case "parse":
			ps := []xParsed{}
			lg.Parse(func(name, renamed, hash string, size int64, t time.Time) bool {
				ps = append(ps, xParsed{true, toChars(name), toChars(renamed), toChars(hash)})
				return false
			}, at(e.From), at(e.To))
			ev := e
			ev.Res = ps
			out = append(out, ev)
		}
	}
	return out
}

func decodeHist(raw []json.RawMessage) []xEvent {
	out := make([]xEvent, 0, len(raw))
	for _, r := range raw {
		var e xEvent
		json.Unmarshal(r, &e)
		if e.Name == nil {
			e.Name = chars{}
		}
		if e.Hash == nil {
			e.Hash = chars{}
		}
		out = append(out, e)
	}
	return out
}

func xferlogMain(args []string) int {
	if len(args) < 1 {
		return fatal("usage: stsh xferlog replay|random ...")
	}
	stslog.InitExternal(quietLogger{})
	fs := flag.NewFlagSet("xferlog", flag.ExitOnError)
	in := fs.String("in", "", "scenario file")
	traces := fs.String("traces", "", "trace ndjson")
	out := fs.String("out", "", "summary json")
	n := fs.Int("n", 100, "random: number of histories")
	fs.Parse(args[1:])
	w, err := newNDWriter(*traces)
	if err != nil {
		return fatal(err)
	}
	defer w.close()
	work, _ := os.MkdirTemp("", "stsh-xlog")
	defer os.RemoveAll(work)
	seq := 0
	emit := func(kind string, obs []xEvent) {
		w.write(map[string]any{"op": "reset", "kind": kind, "id": seq})
		for _, e := range obs {
			m := map[string]any{"op": e.Op}
			switch e.Op {
			case "write":
				m["rec"] = e.Rec
			case "search":
				m["name"], m["hash"], m["from"], m["to"], m["res"] = e.Name, e.Hash, e.From, e.To, e.Res
			case "parse":
				m["from"], m["to"], m["res"] = e.From, e.To, e.Res
			}
			w.write(m)
		}
	}
	switch args[0] {
	case "replay":
		total, diverged, queries := 0, 0, 0
		var firstDiv []any
		err := readLines(*in, func(line []byte) error {
			var sc xScenario
			if err := json.Unmarshal(line, &sc); err != nil {
				return err
			}
			total++
			seq++
			hist := decodeHist(sc.Hist)
			root := filepath.Join(work, fmt.Sprint(seq))
			obs := runXferScenario(sc.Kind, hist, root)
			os.RemoveAll(root)
			// compare the last event (the query) with the prediction
			norm := func(v any) string {
				b, _ := json.Marshal(v)
				var g any
				json.Unmarshal(b, &g)
				b, _ = json.Marshal(g)
				return string(b)
			}
			want := norm(hist[len(hist)-1].Res)
			got := norm(obs[len(obs)-1].Res)
			queries++
			if want != got {
				diverged++
				if len(firstDiv) < 3 {
					firstDiv = append(firstDiv, map[string]any{"kind": sc.Kind, "predicted": hist, "observed": obs[len(obs)-1].Res})
				}
			}
			emit(sc.Kind, obs)
			return nil
		})
		if err != nil {
			return fatal("replay:", err)
		}
		b, _ := json.MarshalIndent(map[string]any{"scenarios": total, "queries": queries, "diverged": diverged, "first_divergences": firstDiv}, "", " ")
		os.WriteFile(*out, b, 0o644)
		fmt.Printf("xferlog replay: scenarios=%d diverged=%d\n", total, diverged)
	case "random":
		rng := rand.New(rand.NewSource(envSeed()))
		names := []string{"p", "pq", "qp", "dir/p", "p.dat", "xpx", "q"}
		hashes := []string{"h1", "h2", "h3"}
		for i := 0; i < *n; i++ {
			kind := []string{"recv", "sent"}[rng.Intn(2)]
			var hist []xEvent
			day := 1
			for j := 0; j < 3+rng.Intn(6); j++ {
				if day < 3 && rng.Intn(4) == 0 {
					day++
					hist = append(hist, xEvent{Op: "nextday"})
					continue
				}
				ren := ""
				if kind == "recv" && rng.Intn(3) == 0 {
					ren = "z/" + names[rng.Intn(len(names))]
				}
				hist = append(hist, xEvent{Op: "write", Rec: &xRec{Name: toChars(names[rng.Intn(len(names))]), Ren: toChars(ren), Hash: toChars(hashes[rng.Intn(len(hashes))])}})
			}
			tm := func() []int { return []int{1 + rng.Intn(3), rng.Intn(2)} }
			if kind == "recv" && rng.Intn(4) == 0 {
				hist = append(hist, xEvent{Op: "parse", From: tm(), To: tm(), Name: chars{}, Hash: chars{}})
			} else {
				h := chars{}
				if rng.Intn(3) > 0 {
					h = toChars(hashes[rng.Intn(len(hashes))])
				}
				hist = append(hist, xEvent{Op: "search", Name: toChars(names[rng.Intn(len(names))]), Hash: h, From: tm(), To: tm()})
			}
			seq++
			root := filepath.Join(work, fmt.Sprint(seq))
			obs := runXferScenario(kind, hist, root)
			os.RemoveAll(root)
			emit(kind, obs)
		}
		fmt.Printf("xferlog random: histories=%d\n", *n)
	}
	return 0
}
