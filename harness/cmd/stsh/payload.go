package main

// Binding of spec/Payload.tla to payload.Bin driven as client.Broker.startBin
// drives it (the loop is private to the broker; binLoop below repeats its body
// statement by statement and is itself checked against the real Broker by the
// sender-level harness).
//
//   stsh payload replay -in scenarios.ndjson -out summary.json -traces t.ndjson
//   stsh payload pipeline -n N -traces t.ndjson   (real queue -> real bin, random)

import (
	"encoding/json"
	"flag"
	"fmt"
	"math/rand"
	"os"
	"reflect"
	"time"

	"github.com/arm-doe/sts"
	"github.com/arm-doe/sts/client"
	"github.com/arm-doe/sts/log"
	"github.com/arm-doe/sts/mock"
	"github.com/arm-doe/sts/payload"
)

func init() { commands["payload"] = payloadMain }

type pChunk struct {
	Name string `json:"name"`
	Off  int64  `json:"off"`
	Len  int64  `json:"len"`
}

type pPart struct {
	Name string `json:"name"`
	Beg  int64  `json:"beg"`
	End  int64  `json:"end"`
}

type pPayload struct {
	None  bool    `json:"none,omitempty"`
	Parts []pPart `json:"parts"`
	Bytes int64   `json:"bytes"`
}

func (p pPayload) MarshalJSON() ([]byte, error) {
	if p.None {
		return []byte(`{"none":true}`), nil
	}
	parts := p.Parts
	if parts == nil {
		parts = []pPart{}
	}
	return json.Marshal(struct {
		Parts []pPart `json:"parts"`
		Bytes int64   `json:"bytes"`
	}{parts, p.Bytes})
}

type pEvent struct {
	Op    string    `json:"op"`
	Cap   int64     `json:"cap,omitempty"`
	ID    int       `json:"id,omitempty"`
	C     *pChunk   `json:"c,omitempty"`
	Parts []pPart   `json:"parts,omitempty"`
	Bytes *int64    `json:"bytes,omitempty"`
	N     *int      `json:"n,omitempty"`
	Of    *pPayload `json:"of,omitempty"`
	Head  *pPayload `json:"head,omitempty"`
	Tail  *pPayload `json:"tail,omitempty"`
}

type pScenario struct {
	Cap  int64    `json:"cap"`
	Hist []pEvent `json:"hist"`
}

// hSendable is the harness's sts.Sendable for chunks given by a scenario.
type hSendable struct {
	*mock.File
	off, n int64
}

func (s *hSendable) GetPrev() string          { return "" }
func (s *hSendable) GetSlice() (int64, int64) { return s.off, s.n }
func (s *hSendable) GetSendSize() int64       { return s.Size }

func describePayload(p sts.Payload) pPayload {
	hdr, err := p.EncodeHeader()
	if err != nil {
		panic(err)
	}
	var meta []struct {
		N string `json:"n"`
		B int64  `json:"b"`
		E int64  `json:"e"`
	}
	if err := json.Unmarshal(hdr, &meta); err != nil {
		panic(err)
	}
	out := pPayload{Bytes: p.GetSize(), Parts: []pPart{}}
	for _, m := range meta {
		out.Parts = append(out.Parts, pPart{m.N, m.B, m.E})
	}
	return out
}

// binLoop repeats the body of Broker.startBin.
type binLoop struct {
	cap     int64
	payload sts.Payload
	current sts.Binnable
	last    sts.Payload // payload shipped last
	obs     []pEvent
}

func (b *binLoop) ship(p sts.Payload) {
	d := describePayload(p)
	bytes := d.Bytes
	b.obs = append(b.obs, pEvent{Op: "ship", Parts: d.Parts, Bytes: &bytes})
	b.last = p
}

// step is one iteration of the loop body with a current chunk; reports whether
// a payload was shipped.
func (b *binLoop) step() bool {
	if b.payload == nil {
		b.payload = payload.NewBin(b.cap, nil, nil)
	}
	added := b.payload.Add(b.current)
	if !added || b.current.IsAllocated() {
		b.current = nil
	}
	if b.payload.IsFull() {
		b.ship(b.payload)
		b.payload = nil
		return true
	}
	return false
}

func (b *binLoop) drain() {
	for b.current != nil {
		b.step()
	}
}

func (b *binLoop) take(s sts.Sendable, c pChunk) {
	b.drain()
	b.current = client.VerifNewBinnable(s, "", true)
	cc := c
	b.obs = append(b.obs, pEvent{Op: "chunk", C: &cc})
}

// expectShip runs the loop until a payload is shipped; if the chunk is used up
// first, the timer fires (flush).
func (b *binLoop) expectShip() {
	for b.current != nil {
		if b.step() {
			return
		}
	}
	if b.payload != nil && b.payload.GetSize() > 0 {
		b.ship(b.payload)
		b.payload = nil
	}
}

func (b *binLoop) split(n int) {
	if b.last == nil {
		return
	}
	of := describePayload(b.last)
	tail := b.last.Split(n)
	head := describePayload(b.last)
	ev := pEvent{Op: "split", N: &n, Of: &of, Head: &head}
	if tail == nil || reflect.ValueOf(tail).IsNil() {
		ev.Tail = &pPayload{None: true}
	} else {
		t := describePayload(tail)
		ev.Tail = &t
	}
	b.obs = append(b.obs, ev)
}

func (b *binLoop) end() {
	b.drain()
	if b.payload != nil && b.payload.GetSize() > 0 {
		// input closed: the loop sends what it has before returning
		b.ship(b.payload)
		b.payload = nil
	}
	b.obs = append(b.obs, pEvent{Op: "end"})
}

func runPayloadScenario(sc pScenario) []pEvent {
	b := &binLoop{cap: sc.Cap}
	for _, e := range sc.Hist {
		switch e.Op {
		case "chunk":
			f := &mock.File{Name: e.C.Name, Size: 1 << 20, Time: time.Unix(1700000000, 0), Hash: "h"}
			b.take(&hSendable{File: f, off: e.C.Off, n: e.C.Len}, *e.C)
		case "ship":
			b.expectShip()
		case "split":
			b.split(*e.N)
		case "end":
			b.end()
		}
	}
	return b.obs
}

func writePayloadTrace(w *ndWriter, id int, cap int64, obs []pEvent) {
	w.write(pEvent{Op: "reset", Cap: cap, ID: id})
	for _, e := range obs {
		w.write(e)
	}
}

func payloadMain(args []string) int {
	if len(args) < 1 {
		return fatal("usage: stsh payload replay|pipeline ...")
	}
	log.InitExternal(quietLogger{})
	qT0 = time.Now().Add(-10 * time.Hour)
	fs := flag.NewFlagSet("payload", flag.ExitOnError)
	in := fs.String("in", "", "scenario file")
	out := fs.String("out", "", "summary json")
	traces := fs.String("traces", "", "trace ndjson for TLC")
	sample := fs.Int("sample", 200, "conforming scenarios whose trace is written")
	stride := fs.Int("stride", 1, "write one conforming trace in this many")
	n := fs.Int("n", 100, "pipeline: number of runs")
	fs.Parse(args[1:])
	rng := rand.New(rand.NewSource(envSeed()))
	w, err := newNDWriter(*traces)
	if err != nil {
		return fatal(err)
	}
	defer w.close()
	switch args[0] {
	case "selftest":
		// Fluff(c) of the specification against the real NewBin
		for c := int64(1); c <= 400; c++ {
			b := payload.NewBin(c, nil, nil)
			f := &mock.File{Name: "x", Size: 1 << 20}
			b.Add(client.VerifNewBinnable(&hSendable{File: f, off: 0, n: 1 << 19}, "", true))
			if b.GetSize() != c+c/10 {
				fmt.Printf("fluff mismatch at %d: %d\n", c, b.GetSize()-c)
				return 1
			}
		}
		fmt.Println("payload selftest ok")
	case "replay":
		total, diverged, written, ships := 0, 0, 0, 0
		var firstDiv, samples []any
		err := readLines(*in, func(line []byte) error {
			var sc pScenario
			if err := json.Unmarshal(line, &sc); err != nil {
				return err
			}
			total++
			obs := runPayloadScenario(sc)
			want, _ := json.Marshal(sc.Hist)
			got, _ := json.Marshal(obs)
			for _, e := range obs {
				if e.Op == "ship" {
					ships++
				}
			}
			div := string(want) != string(got)
			if div {
				diverged++
				if len(firstDiv) < 3 {
					firstDiv = append(firstDiv, map[string]any{"cap": sc.Cap, "predicted": sc.Hist, "observed": obs})
				}
			}
			if div || (rng.Intn(*stride) == 0 && written-diverged < *sample) {
				writePayloadTrace(w, total, sc.Cap, obs)
				written++
				if len(samples) < 2 {
					samples = append(samples, map[string]any{"cap": sc.Cap, "observed": obs})
				}
			}
			return nil
		})
		if err != nil {
			return fatal("replay:", err)
		}
		sum := map[string]any{"scenarios": total, "ships": ships, "diverged": diverged, "traces_written": written,
			"first_divergences": firstDiv, "samples": samples}
		b, _ := json.MarshalIndent(sum, "", " ")
		os.WriteFile(*out, b, 0o644)
		fmt.Printf("payload replay: scenarios=%d ships=%d diverged=%d traces=%d\n", total, ships, diverged, written)
	case "pipeline":
		// real queue -> real binnable -> real bin, random configuration
		events := 0
		for i := 0; i < *n; i++ {
			conf, hist := randomHistory(rng, 8+rng.Intn(10))
			q := newRealQueue(conf)
			for _, e := range hist {
				if e.Op == "push" {
					hs := make([]sts.Hashed, len(e.Files))
					for j, f := range e.Files {
						f.Time = f.Time % 6 // nothing is withheld here
						hs[j] = realFile(f, &qClock{})
					}
					q.Push(hs)
				}
			}
			caps := []int64{10, 11, 12, 15, 20, 33}
			b := &binLoop{cap: caps[rng.Intn(len(caps))]}
			for k := 0; k < 200; k++ {
				s := q.Pop()
				if s == nil {
					break
				}
				off, ln := s.GetSlice()
				b.take(s, pChunk{s.GetName(), off, ln})
				if rng.Intn(4) == 0 {
					b.expectShip()
				}
			}
			b.end()
			writePayloadTrace(w, i+1, b.cap, b.obs)
			events += len(b.obs)
		}
		fmt.Printf("payload pipeline: runs=%d events=%d\n", *n, events)
	}
	return 0
}
