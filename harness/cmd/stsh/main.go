package main

import (
	"fmt"
	"os"
)

func main() {
	if len(os.Args) < 2 {
		fmt.Fprintln(os.Stderr, "usage: stsh <component> [flags]")
		os.Exit(2)
	}
	cmd, ok := commands[os.Args[1]]
	if !ok {
		fmt.Fprintln(os.Stderr, "unknown component", os.Args[1])
		os.Exit(2)
	}
	os.Exit(cmd(os.Args[2:]))
}

var commands = map[string]func([]string) int{}
