package main

import (
	"fmt"
	"os"
	"runtime/pprof"
	"syscall"
)

func main() {
	if len(os.Args) < 2 {
		fmt.Fprintln(os.Stderr, "usage: stsh <component> [flags]")
		os.Exit(2)
	}
	cmd, ok := commands[os.Args[1]]
	if !ok {
		fmt.Fprintln(os.Stderr, "unknown component", os.Args[1])
		os.Exit(2)
	}
	// the components under test keep log files open; allow many instances
	var rl syscall.Rlimit
	if syscall.Getrlimit(syscall.RLIMIT_NOFILE, &rl) == nil {
		rl.Cur = rl.Max
		syscall.Setrlimit(syscall.RLIMIT_NOFILE, &rl)
	}
	if pf := os.Getenv("STSH_CPUPROFILE"); pf != "" {
		f, _ := os.Create(pf)
		pprof.StartCPUProfile(f)
		rc := cmd(os.Args[2:])
		pprof.StopCPUProfile()
		f.Close()
		os.Exit(rc)
	}
	os.Exit(cmd(os.Args[2:]))
}

var commands = map[string]func([]string) int{}
