#!/bin/bash
# confirm_seed.sh <seed dir> : confirms a seeded change in a scratch worktree:
# builds, existing tests pass with the change, the demo fails with it and passes without.
set -u
S=$(readlink -f "$1"); W=$(mktemp -d /tmp/wtc.XXXX); export GOFLAGS=-mod=mod GOPROXY=off
git -C /repo worktree add -q --detach "$W" HEAD || exit 2
cd "$W"
demo=$(ls "$S"/*_test.go | head -1); pkg=$(grep -o '"demo_pkg": *"[^"]*"' "$S/meta.json" | sed 's/.*: *"//; s/"//')
[ -z "$pkg" ] && pkg=$(grep -m1 '^package ' "$demo" | awk '{print $2}' | sed 's/_test$//')
[ "$pkg" = "main" ] && pkg=main; [ "$pkg" = "sts" ] && pkg=.
out="$S/confirm.log"; : > "$out"
cp "$demo" "$pkg/" 
echo "== demo without change" >> "$out"; go test -vet=off -count=1 -run 'Seeded|Demo' ./$pkg/ >> "$out" 2>&1; r0=$?
git apply "$S/patch.diff" || { echo "patch does not apply" >> "$out"; r0=99; }
echo "== build with change" >> "$out"; go build ./... >> "$out" 2>&1; rb=$?
echo "== demo with change" >> "$out"; go test -vet=off -count=1 -run 'Seeded|Demo' ./$pkg/ >> "$out" 2>&1; r1=$?
rm -f "$pkg/$(basename "$demo")"
echo "== suite with change" >> "$out"; go test -vet=off -count=1 ./... 2>&1 | grep -v "^ok\|no test files" >> "$out"; 
fails=$(go test -vet=off -count=1 ./... 2>&1 | grep -c "^FAIL.*sts/" )
cd /; git -C /repo worktree remove --force "$W"
echo "demo_without=$r0 build=$rb demo_with=$r1 failing_pkgs_with_change=$fails" | tee -a "$out"
