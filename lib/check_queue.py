"""C10 / C12 (and the chunk half of C11): spec/Queue.tla bound to queue.Tagged."""
import json
import os

from vlib import (Inconclusive, ScenarioSink, cex_last_state, cfg, finish, kf_open, log, build_harness,
                  run_harness, save_replay, tla_bool, tlc, validate_traces)

FORMULAS = {
    "C10": ["C10_Next", "C10_NoSelf", "C10_Prev", "C10_Acyclic"],
    "C12": ["C12_Priority", "C12_NoIdle", "C12_DelaySkip", "C12_Rotation"],
    "C11": ["C11_Chunk"],
}
INTERNAL = ["I_HeadFirst", "I_ChainMirrorsList", "I_ByFile"]
FAMILIES = {"C10": ["A"], "C12": ["B", "C"], "C11": ["A", "B"]}
BOUNDS = {  # (MaxOps, MaxPush)
    "quick": {"A": (8, 3), "B": (8, 3), "C": (9, 4)},
    "thorough": {"A": (9, 4), "B": (9, 3), "C": (10, 4)},
}
RULE = ("TLC enumerates every Push/Pop history of the transcribed queue within the bounds (design check, all "
        "formulas in every state) and prints each maximal history; every history is replayed on the real "
        "queue.Tagged and each Pop result compared with the specification's; diverging histories, a sample of "
        "conforming ones and seeded random longer histories are validated by TLC (QueueTrace.tla) with the "
        "property formulas evaluated on the observed results. distinct_nontrivial = histories with >= 2 chunks.")


def base_constants(fam, bounds, emit, kfq1):
    return {"Confs": "<- Confs" + fam, "Batches": "<- Batches" + fam, "MaxOps": bounds[0],
            "MaxPush": bounds[1], "Emit": tla_bool(emit), "KF_Q1": tla_bool(kfq1)}


def trace_constants(kfq1):
    return {"Confs": "{}", "Batches": "{}", "MaxOps": 0, "MaxPush": 0, "KF_Q1": tla_bool(kfq1)}


def describe(last, var="obs"):
    if not last:
        return None
    out = []
    for e in last.get(var, []):
        if e.get("op") == "push":
            out.append("push " + ",".join("%s@%s/%s%s" % (f["name"], f["time"], f["size"], "R" if f["rec"] else "")
                                          for f in e["files"]))
        elif e.get("op") == "tick":
            out.append("tick (time passes: no file is young any more)")
        else:
            r = e["res"]
            out.append("pop->%s[%s+%s]prev=%s" % (r["name"], r["off"], r["len"], r["prev"]))
    return {"conf": last.get("conf"), "history": out}


def run_traces(ctx, prop, trace_file, label):
    """Validate recorded traces: property formulas on observations, then conformance,
    then the known-finding witnesses.  Records violations / drift / known findings."""
    forms = ["Obs_" + f for f in FORMULAS[prop]]
    kf = kf_open("Q1")
    res = validate_traces(ctx, "QueueTrace", trace_file, trace_constants(kf), forms)
    bad = False
    for p, nev, ntr, r in res:
        if r.violated:
            bad = True
            last = cex_last_state(r)
            rp = save_replay(ctx, label, {"kind": "queue-trace", "formula": r.violated[0],
                                          "observed": describe(last), "raw": last and {"conf": last.get("conf"), "obs": last.get("obs")}})
            ctx.violations.append((r.violated[0], rp))
        elif r.postcondition_failed or not r.ok:
            raise Inconclusive("trace part %s not fully consumed:\n%s" % (p, r.out[-1500:]))
        else:
            ctx.traces += ntr
            ctx.events += nev
    if bad:
        return
    # conformance: is the code still the verified design?
    res = validate_traces(ctx, "QueueTrace", trace_file, trace_constants(kf), ["Conform"])
    for p, nev, ntr, r in res:
        if r.violated:
            last = cex_last_state(r)
            d = describe(last)
            ctx.drift.append("action=Pop diverges from Queue.tla after %s" % (json.dumps(d["history"][-3:]) if d else "?"))
            break
    # known finding Q1: with its switch off the formula must fail only there
    if kf and prop == "C10":
        res = validate_traces(ctx, "QueueTrace", trace_file, trace_constants(False), ["Obs_C10_Prev"])
        hit = [r for _, _, _, r in res if r.violated]
        if hit:
            d = describe(cex_last_state(hit[0]))
            ctx.known.append("Q1 queue.Tagged.Push: a name pushed again while it is the only listed file of its "
                             "group loses the predecessor chain; observed %s" % json.dumps(d["history"][-4:] if d else "?"))


def check(ctx, replay=None):
    build_harness(ctx)
    if replay:
        return do_replay(ctx, replay)
    if run(ctx, ctx.prop) == "stop":
        return finish(ctx, RULE)
    return finish(ctx, RULE)


def run(ctx, prop):
    kf = kf_open("Q1")
    forms = ["Inv_" + f for f in FORMULAS[prop]] + INTERNAL
    all_traces = ctx.path("traces.ndjson")
    open(all_traces, "w").close()
    scen_total = diverged = nontrivial = 0
    for fam in FAMILIES[prop]:
        # (C11's thorough tier spends its time on the payload layer: the queue families keep their
        # quick bounds there, the 9-operation instances did not finish within 17 minutes together with it)
        bounds = BOUNDS["quick" if prop == "C11" else ctx.tier][fam]
        scn = ctx.path("scn%s.ndjson" % fam)
        sink = ScenarioSink(scn)
        r = tlc(ctx, "MCQueue", cfg("Spec", base_constants(fam, bounds, True, kf), forms, constraint="EmitScenario"),
                timeout=3000, heap="12g", sink=sink)
        sink.close()
        ctx.states += r.distinct
        ctx.transitions += r.generated
        ctx.notes["design_%s" % fam] = {"distinct": r.distinct, "generated": r.generated, "depth": r.depth,
                                        "bounds": {"MaxOps": bounds[0], "MaxPush": bounds[1]}, "wall_s": round(r.wall, 1),
                                        "scenarios_emitted": sink.n}
        if r.violated:
            # a counterexample on the design is a scenario like any other: replay it
            last = cex_last_state(r)
            log("design counterexample (%s) on family %s; replaying it on the real queue" % (r.violated[0], fam))
            one = ctx.path("cex%s.ndjson" % fam)
            with open(one, "w") as f:
                hist = [{"op": e["op"], **({"files": e["files"]} if e["op"] == "push" else {"res": e["res"]})}
                        for e in last["hist"]]
                f.write(json.dumps({"conf": last["conf"], "hist": hist}) + "\n")
            tr = ctx.path("cextr%s.ndjson" % fam)
            run_harness(ctx, ["queue", "replay", "-in", one, "-out", ctx.path("cexsum.json"), "-traces", tr, "-stride", "1"])
            run_traces(ctx, prop, tr, "design-cex")
            if not ctx.violations:
                raise Inconclusive("design counterexample %s does not reproduce on the real queue: the model "
                                   "misrepresents the code" % r.violated[0])
            return "stop"
        if not r.ok:
            raise Inconclusive("TLC did not finish family %s:\n%s" % (fam, r.out[-1500:]))
        tr = ctx.path("tr%s.ndjson" % fam)
        summ = ctx.path("sum%s.json" % fam)
        stride = max(1, sink.n // (150 if ctx.tier == "quick" else 1500))
        run_harness(ctx, ["queue", "replay", "-in", scn, "-out", summ, "-traces", tr, "-stride", str(stride),
                          "-sample", "150" if ctx.tier == "quick" else "1500"])
        s = json.load(open(summ))
        scen_total += s["scenarios"]
        diverged += s["diverged"]
        nontrivial += s.get("nontrivial", 0)
        ctx.notes["replay_%s" % fam] = {k: s[k] for k in ("scenarios", "pops", "diverged", "traces_written", "nontrivial")}
        if s.get("first_divergences"):
            ctx.notes["first_divergences_%s" % fam] = s["first_divergences"][:2]
        if s.get("samples"):
            ctx.samples += s["samples"][:2]
        os.remove(scn)
        with open(all_traces, "a") as f:
            f.write(open(tr).read())
    # the model keeps representing the known finding: with the switch off TLC must find it
    if kf and prop == "C10":
        r = tlc(ctx, "MCQueue", cfg("Spec", base_constants("A", (5, 3), False, False), ["Inv_C10_Prev"]), timeout=600)
        ctx.notes["kf_Q1_design_witness"] = bool(r.violated)
        if not r.violated:
            raise Inconclusive("known finding Q1 is open but the model no longer exhibits it")
    # direction A: seeded random longer histories
    rnd = ctx.path("rnd.ndjson")
    n, ln = (40, 24) if ctx.tier == "quick" else (600, 40)
    run_harness(ctx, ["queue", "random", "-n", str(n), "-len", str(ln), "-traces", rnd])
    with open(all_traces, "a") as f:
        f.write(open(rnd).read())
    ctx.notes["random_histories"] = n
    ctx.notes["replayed_scenarios"] = scen_total
    ctx.notes["replay_divergences"] = diverged
    ctx.notes["distinct_nontrivial"] = nontrivial
    run_traces(ctx, prop, all_traces, "trace")
    # replayed scenarios that conform are behaviours of the checked design
    ctx.traces += scen_total - diverged
    ctx.assumptions += ["abstract time: file times are placed hours in the past (old) or future (young) relative to a "
                       "one-hour last-file delay", "names within a group are ranked as Go compares strings",
                       "chunk size 0 is not combined with resumed files (the sender never configures it)"]
    return "ok"


def do_replay(ctx, path):
    d = json.load(open(path))
    raw = d.get("raw")
    if not raw:
        raise Inconclusive("replay file has no raw history")
    one = ctx.path("one.ndjson")
    with open(one, "w") as f:
        hist = [{"op": e["op"], **({"files": e["files"]} if e["op"] == "push" else {"res": e["res"]})} for e in raw["obs"]]
        f.write(json.dumps({"conf": raw["conf"], "hist": hist}) + "\n")
    tr = ctx.path("one-tr.ndjson")
    run_harness(ctx, ["queue", "replay", "-in", one, "-out", ctx.path("one-sum.json"), "-traces", tr, "-stride", "1"])
    run_traces(ctx, ctx.prop, tr, "replay")
    return finish(ctx, RULE)
