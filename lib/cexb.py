#!/usr/bin/env python3
"""Print the history H of a SenderTrace counterexample (or the events of scenario id N of a trace file)."""
import json, sys
def show(H):
    for e in H:
        op = e['op']
        if op == 'reset':
            c = e['conf']; print('---- scenario', e.get('id'), {k: c[k] for k in c if k not in ('files','steps','faults')}); print('   files', c['files']); print('   steps', c['steps'], 'faults', c['faults']); continue
        d = {k: v for k, v in e.items() if k not in ('op', 'seq', 'recv', 'conf', 'cache', 'src', 'versions')}
        if op in ('transmit', 'txrecover'):
            d['parts'] = ['%s[%s,%s)' % (p['name'], p['beg'], p['end']) for p in d['parts']]
        if op == 'push': d['files'] = [(f['name'], f['rec']) for f in d['files']]
        if 'recv' in e and op in ('sent','done','remove','end','start'):
            r = e['recv']; d['R'] = {'final': {k: v[:6] for k, v in r['final'].items()}, 'held': list(r['held']), 'staged': r['staged'], 'logged': [x[0] for x in r['logged']]}
        if op == 'end': d['cache'] = {k: (v['done'], v['hash'][:6]) for k, v in e['cache'].items()}; d['src'] = {k: v[:6] for k, v in e['src'].items()}
        for k in ('hash','srchash','cachehash'):
            if k in d and isinstance(d[k], str): d[k] = d[k][:6]
        print(e.get('seq'), op, json.dumps(d)[:260])
if sys.argv[1].endswith('.ndjson'):
    want = int(sys.argv[2]); cur = None; H = []
    for l in open(sys.argv[1]):
        e = json.loads(l)
        if e['op'] == 'reset': cur = e.get('id'); 
        if cur == want: H.append(e)
    show(H)
else:
    d = json.load(open(sys.argv[1]))['counterexample']['state'][-1][1]
    show(d['H'])
