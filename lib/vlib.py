"""Shared machinery of the sts verification checks (python3 stdlib only).

Every check:  build the Go harness from /repo's working tree (-tags verif),
run TLC on the design (base configs), generate behaviours, replay them on the
real code, validate the recorded traces with TLC, write evidence, print the
verdict.  Exit codes: 0 held, 1 VIOLATION (printed), 2 inconclusive/broken.
"""
import concurrent.futures as cf
import json
import os
import re
import shutil
import subprocess
import sys
import tempfile
import time

VERIF = os.path.dirname(os.path.dirname(os.path.abspath(__file__)))
REPO = os.environ.get("VERIF_REPO", "/repo")
SPEC = os.path.join(VERIF, "spec")
HARNESS = os.path.join(VERIF, "harness")
EVID = os.path.join(VERIF, "evidence")
REPLAYS = os.path.join(VERIF, "replays")
TLAJAR = "/opt/veriftools/tla/tla2tools.jar:/opt/veriftools/tla/CommunityModules-deps.jar"
GOENV = {"GOFLAGS": "-mod=mod", "GOPROXY": "off"}
NCPU = os.cpu_count() or 4


class Inconclusive(Exception):
    """The machinery could not decide (build failure, TLC error, time-out)."""


def log(*a):
    print(*a, flush=True)


def known_findings():
    p = os.path.join(VERIF, "known_findings.json")
    if not os.path.exists(p):
        return []
    return json.load(open(p))["findings"]


def kf_open(fid):
    """True when finding fid is listed and not fixed (its model switch is on)."""
    for f in known_findings():
        if f["id"] == fid:
            return f.get("status") == "open"
    return False


class Ctx:
    def __init__(self, prop, tier, seed):
        self.prop = prop
        self.tier = tier
        self.seed = seed
        self.t0 = time.time()
        base = os.environ.get("VERIF_SCRATCH") or tempfile.gettempdir()
        self.dir = tempfile.mkdtemp(prefix="verif-%s-" % prop, dir=base)
        self.states = 0
        self.transitions = 0
        self.traces = 0
        self.events = 0
        self.samples = []
        self.notes = {}
        self.violations = []      # (formula, replay path)
        self.known = []           # KNOWN-FINDING lines
        self.drift = []           # DRIFT descriptions
        self.level = "model_checking"
        self.exhaustive = True
        self.assumptions = []
        self.stsh = None
        self.replay_mode = False
        self._n = 0

    def path(self, name):
        return os.path.join(self.dir, name)

    def fresh(self, stem, ext=""):
        self._n += 1
        return self.path("%s-%d%s" % (stem, self._n, ext))

    def cleanup(self):
        shutil.rmtree(self.dir, ignore_errors=True)


# --------------------------------------------------------------------- build
def build_harness(ctx):
    """go build the harness against /repo's current working tree with hooks on."""
    out = ctx.path("stsh")
    env = dict(os.environ)
    env.update(GOENV)
    for k in ("GOSUMDB", "GOTOOLCHAIN"):
        env.pop(k, None)
    gomod = os.path.join(HARNESS, "go.mod")
    txt = open(gomod).read()
    want = "replace github.com/arm-doe/sts => %s" % REPO
    if want not in txt:
        txt = re.sub(r"replace github.com/arm-doe/sts => \S+", want, txt)
        open(gomod, "w").write(txt)
    shutil.copy(os.path.join(REPO, "go.sum"), os.path.join(HARNESS, "go.sum"))
    t = time.time()
    r = subprocess.run(["go", "build", "-tags", "verif", "-o", out, "./cmd/stsh"],
                       cwd=HARNESS, env=env, capture_output=True, text=True)
    if r.returncode != 0:
        raise Inconclusive("harness build failed:\n" + r.stdout + r.stderr)
    ctx.stsh = out
    ctx.notes["build_s"] = round(time.time() - t, 1)
    return out


def run_harness(ctx, args, timeout=1800, env_extra=None, check=True):
    env = dict(os.environ)
    env["VERIF_SEED"] = str(ctx.seed)
    if env_extra:
        env.update(env_extra)
    lf = ctx.fresh("harness", ".log")
    with open(lf, "w") as f:
        try:
            r = subprocess.run([ctx.stsh] + args, stdout=f, stderr=subprocess.STDOUT,
                               timeout=timeout, env=env, cwd=ctx.dir)
        except subprocess.TimeoutExpired:
            raise Inconclusive("harness timed out: %s" % " ".join(args))
    out = open(lf, errors="replace").read()
    if check and r.returncode != 0:
        raise Inconclusive("harness failed (%d): %s\n%s" % (r.returncode, " ".join(args), out[-3000:]))
    return r.returncode, out


def run_harness_chunks(ctx, component, mode, scn, chunk=6000, extra=None):
    """Run `stsh <component> <mode>` on a scenario file in parallel chunks; returns (trace file, summaries)."""
    lines = open(scn).read().splitlines()
    heads = [l for l in lines if l.startswith('{"def"')]
    body = [l for l in lines if not l.startswith('{"def"')]
    n = max(1, min(NCPU, (len(body) + chunk - 1) // chunk)) if len(body) > chunk else min(NCPU, max(1, len(body) // 200 or 1))
    parts = [body[i::n] for i in range(n)]

    def one(i):
        if not parts[i]:
            return None
        p = "%s.c%d" % (scn, i)
        open(p, "w").write("\n".join(heads + parts[i]) + "\n")
        tr, summ = p + ".tr", p + ".sum"
        run_harness(ctx, [component, mode, "-in", p, "-traces", tr, "-out", summ] + (extra or []), timeout=2400)
        return tr, summ

    outs = []
    with cf.ThreadPoolExecutor(max_workers=n) as ex:
        for r in ex.map(one, range(n)):
            if r:
                outs.append(r)
    tr_all = scn + ".traces"
    sums = []
    with open(tr_all, "w") as f:
        for tr, summ in outs:
            f.write(open(tr).read())
            sums.append(json.load(open(summ)))
    return tr_all, sums


# ----------------------------------------------------------------------- TLC
class TLCResult:
    def __init__(self):
        self.generated = 0
        self.distinct = 0
        self.depth = 0
        self.violated = []       # names of violated invariants / properties
        self.postcondition_failed = False
        self.errors = []         # other TLC errors
        self.ok = False
        self.timeout = False
        self.out = ""
        self.cex = None          # path of -dumpTrace json
        self.wall = 0.0
        self.coverage = {}


_spec_lock = __import__("threading").Lock()


def _stage_specs(ctx):
    d = ctx.path("spec")
    with _spec_lock:
        if not os.path.isdir(d):
            tmp = d + ".tmp"
            shutil.copytree(SPEC, tmp)
            os.rename(tmp, d)
    return d


def tlc(ctx, module, cfg_text, workers=None, timeout=600, heap="6g", extra=None,
        sink=None, simulate=None, deque=False):
    """Run TLC on spec/<module>.tla with the given cfg text.

    sink: optional callable(line) receiving every stdout line (scenario emission);
    those lines are not kept in memory.
    """
    d = _stage_specs(ctx)
    tag = ctx.fresh("run")
    cfg = tag + ".cfg"
    open(cfg, "w").write(cfg_text)
    meta = tag + ".md"
    cex = tag + ".cex.json"
    res = TLCResult()
    res.cex = cex
    cmd = ["java", "-XX:+UseParallelGC", "-Xmx" + heap, "-Xss64m"]
    if deque:
        cmd.append("-Dtlc2.tool.queue.IStateQueue=StateDeque")
    cmd += ["-cp", TLAJAR, "tlc2.TLC", "-workers", str(workers or NCPU), "-metadir", meta,
            "-noGenerateSpecTE", "-dumpTrace", "json", cex, "-config", cfg]
    if simulate:
        cmd += ["-simulate", simulate]
    if extra:
        cmd += extra
    cmd.append(module + ".tla")
    t = time.time()
    keep = []
    head = []
    p = subprocess.Popen(cmd, cwd=d, stdout=subprocess.PIPE, stderr=subprocess.STDOUT, text=True,
                         errors="replace")
    try:
        deadline = t + timeout
        for line in p.stdout:
            if sink is not None and line.startswith('"'):
                sink(line)
                continue
            if line.startswith("Error:") or " states generated" in line or "depth of the complete" in line \
                    or "No error has been found" in line:
                head.append(line)
            keep.append(line)
            if len(keep) > 20000:
                del keep[:5000]
            if time.time() > deadline:
                p.kill()
                res.timeout = True
                break
        p.wait(timeout=30)
    except Exception:
        p.kill()
        res.timeout = True
    res.wall = time.time() - t
    res.out = "".join(keep)
    out = "".join(head)
    m = re.findall(r"(\d+) states generated, (\d+) distinct states found", out)
    if m:
        res.generated, res.distinct = int(m[-1][0]), int(m[-1][1])
    m = re.search(r"depth of the complete state graph search is (\d+)", out)
    if m:
        res.depth = int(m.group(1))
    for m in re.finditer(r"Error: (?:Invariant|Action property) (\S+) is violated", out):
        res.violated.append(m.group(1))
    if "Temporal properties were violated" in out:
        res.violated.append("TEMPORAL")
    if re.search(r"Error: Postcondition", out):
        res.postcondition_failed = True
    for m in re.finditer(r"^Error: (.*)$", out, re.M):
        s = m.group(1)
        if "is violated" in s or s.startswith("Postcondition") or s.startswith("The behavior up to") \
                or "Temporal properties were violated" in s or s.startswith("The following behavior"):
            continue
        res.errors.append(s)
    res.ok = ("No error has been found" in out) and not res.errors
    shutil.rmtree(meta, ignore_errors=True)
    open(tag + ".out", "w").write(out + "\n----\n" + res.out[-200000:])
    if res.timeout:
        raise Inconclusive("TLC timed out after %ds on %s" % (timeout, module))
    if res.errors and not res.violated:
        raise Inconclusive("TLC error on %s: %s\n%s" % (module, res.errors[:3], res.out[-1500:]))
    return res


def cfg(spec, constants, invariants=(), properties=(), constraint=None, postcondition=None,
        view=None, action_constraint=None, symmetry=None, init_next=None):
    lines = []
    if init_next:
        lines += ["INIT " + init_next[0], "NEXT " + init_next[1]]
    else:
        lines.append("SPECIFICATION " + spec)
    lines.append("CONSTANTS")
    for k, v in constants.items():
        lines.append("  %s" % (v if k is None else ("%s = %s" % (k, v) if not str(v).startswith("<-") else "%s %s" % (k, v))))
    if constraint:
        lines.append("CONSTRAINT " + constraint)
    if action_constraint:
        lines.append("ACTION_CONSTRAINT " + action_constraint)
    if view:
        lines.append("VIEW " + view)
    if invariants:
        lines.append("INVARIANTS")
        lines += ["  " + i for i in invariants]
    if properties:
        lines.append("PROPERTIES")
        lines += ["  " + i for i in properties]
    if postcondition:
        lines.append("POSTCONDITION " + postcondition)
    lines.append("CHECK_DEADLOCK FALSE")
    return "\n".join(lines) + "\n"


def tla_bool(b):
    return "TRUE" if b else "FALSE"


class ScenarioSink:
    """Collects the lines TLC prints with PrintT("SCN ..."/"DEF ...") as ndjson."""

    def __init__(self, path):
        self.path = path
        self.f = open(path, "w")
        self.n = 0

    def __call__(self, line):
        try:
            s = json.loads(line)
        except Exception:
            return
        if s.startswith("DEF "):
            self.f.write('{"def":' + s[4:] + "}\n")
        elif s.startswith("SCN "):
            self.f.write(s[4:] + "\n")
            self.n += 1

    def close(self):
        self.f.close()


# ----------------------------------------------------------- trace validation
def split_traces(path, parts, is_start):
    """Split an ndjson trace file into <= parts files at trace boundaries."""
    lines = open(path).read().split("\n")
    lines = [l for l in lines if l]
    starts = [i for i, l in enumerate(lines) if is_start(l)]
    if not starts:
        return []
    starts.append(len(lines))
    traces = [lines[starts[i]:starts[i + 1]] for i in range(len(starts) - 1)]
    parts = max(1, min(parts, len(traces)))
    # balance by squared length (validation cost grows with history length)
    buckets = [[] for _ in range(parts)]
    load = [0] * parts
    for tr in sorted(traces, key=len, reverse=True):
        i = load.index(min(load))
        buckets[i].append(tr)
        load[i] += len(tr) ** 2
    out = []
    for i, b in enumerate(buckets):
        if not b:
            continue
        p = "%s.part%d" % (path, i)
        with open(p, "w") as f:
            for tr in b:
                f.write("\n".join(tr) + "\n")
        out.append((p, sum(len(tr) for tr in b), len(b)))
    return out


def validate_traces(ctx, module, trace_path, constants, invariants, properties=(), parts=None,
                    is_start=lambda l: '"op":"reset"' in l, timeout=900, spec="TraceSpec",
                    postcondition="TraceAccepted", deque=False, heap="2g"):
    """Validate an ndjson file of concatenated traces with TLC, in parallel parts.

    Returns a list of (part path, TLCResult).  A part is fully consumed iff its
    result has no violation and the postcondition held.
    """
    d = _stage_specs(ctx)
    chunks = split_traces(trace_path, parts or NCPU, is_start)
    if not chunks:
        raise Inconclusive("no trace found in %s" % trace_path)
    results = []

    def one(ch):
        p, nev, ntr = ch
        rel = os.path.relpath(p, d)
        c = dict(constants)
        c["TraceFile"] = '"%s"' % rel
        r = tlc(ctx, module, cfg(spec, c, invariants, properties, postcondition=postcondition),
                workers=1, timeout=timeout, heap=heap, deque=deque)
        return (p, nev, ntr, r)

    with cf.ThreadPoolExecutor(max_workers=NCPU) as ex:
        for x in ex.map(one, chunks):
            results.append(x)
    return results


def cex_last_state(res):
    try:
        d = json.load(open(res.cex))
        st = d["counterexample"]["state"]
        last = st[-1]
        return last[1] if isinstance(last, list) else last
    except Exception:
        return None


# ------------------------------------------------------------------ evidence
def save_replay(ctx, name, payload):
    os.makedirs(REPLAYS, exist_ok=True)
    p = os.path.join(REPLAYS, "%s-%s-%d.json" % (ctx.prop, name, int(time.time() * 1000) % 10**10))
    json.dump(payload, open(p, "w"), indent=1)
    return p


def write_evidence(ctx, rule, extra=None):
    os.makedirs(EVID, exist_ok=True)
    cov = {
        "states": int(ctx.states),
        "transitions": int(ctx.transitions),
        "traces_validated_against_impl": int(ctx.traces),
        "trace_events_validated": int(ctx.events),
        "samples": ctx.samples[:6] if ctx.samples else ["(no sample recorded)"],
        "rule": rule,
        "exhaustive": bool(ctx.exhaustive),
        "evaluations": int(max(1, ctx.traces)),
        "distinct_nontrivial": int(max(2, ctx.notes.get("distinct_nontrivial", ctx.traces))),
        "known_findings_reported": ctx.known,
        "drift": ctx.drift,
    }
    cov.update(ctx.notes)
    if extra:
        cov.update(extra)
    ev = {
        "property_id": ctx.prop,
        "tier": ctx.tier,
        "seed": int(ctx.seed),
        "level": ctx.level,
        "coverage": cov,
        "assumptions": ctx.assumptions,
        "wall_s": round(time.time() - ctx.t0, 1),
        "violations": len(ctx.violations),
    }
    json.dump(ev, open(os.path.join(EVID, ctx.prop + ".json"), "w"), indent=1)


def finish(ctx, rule, extra=None):
    """Print verdict lines, write evidence, return the exit code."""
    for line in ctx.known:
        log("KNOWN-FINDING: property=%s %s" % (ctx.prop, line))
    for dsc in ctx.drift:
        log("DRIFT property=%s %s" % (ctx.prop, dsc))
    if ctx.drift:
        ctx.level = "exploration"
    if not ctx.replay_mode:
        write_evidence(ctx, rule, extra)
    if ctx.violations:
        for formula, rp in ctx.violations:
            log("VIOLATION property=%s replay=%s formula=%s" % (ctx.prop, rp, formula))
        return 1
    log("OK property=%s tier=%s states=%d traces=%d events=%d wall=%.0fs" % (
        ctx.prop, ctx.tier, ctx.states, ctx.traces, ctx.events, time.time() - ctx.t0))
    return 0


def main(checks):
    import argparse
    ap = argparse.ArgumentParser()
    ap.add_argument("prop")
    ap.add_argument("--tier", default=os.environ.get("VERIF_TIER", "quick"), choices=["quick", "thorough"])
    ap.add_argument("--replay", default=None)
    ap.add_argument("--keep", action="store_true")
    a = ap.parse_args()
    seed = int(os.environ.get("VERIF_SEED", "1") or 1)
    if a.prop not in checks:
        log("unknown property", a.prop)
        return 2
    ctx = Ctx(a.prop, a.tier, seed)
    ctx.replay_mode = bool(a.replay)
    try:
        return checks[a.prop](ctx, a.replay)
    except Inconclusive as e:
        log("INCONCLUSIVE property=%s: %s" % (a.prop, e))
        return 2
    finally:
        if not a.keep:
            ctx.cleanup()
        else:
            log("scratch kept:", ctx.dir)
