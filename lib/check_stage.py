"""C01 C04 C05 C06 C09 C20: spec/Stage.tla bound to stage.Stage (harness level L1)."""
import concurrent.futures as cf
import json
import random
import os
import subprocess

from vlib import (known_findings, Inconclusive, NCPU, ScenarioSink, cex_last_state, cfg, finish, kf_open, log, build_harness,
                  run_harness, save_replay, tla_bool, tlc, validate_traces)

KFS = ["S1", "S3", "S7", "S9", "S15", "S19", "S20", "S21"]

UNIVERSES = {
    "U1": dict(Names="NamesAB", Vers="VersAB", Prev="PrevAB", Ren="RenNone", SubOf="SubSelf",
               json={"names": ["p", "q"], "vers": {"p": [1, 2], "q": [1]}, "prev": {"p": "", "q": "p"},
                     "ren": {"p": "", "q": ""}, "nb": 2}),
    "U2": dict(Names="NamesAB", Vers="Vers1", Prev="PrevCyc", Ren="RenNone", SubOf="SubSelf",
               json={"names": ["p", "q"], "vers": {"p": [1], "q": [1]}, "prev": {"p": "q", "q": "p"},
                     "ren": {"p": "", "q": ""}, "nb": 2}),
    "U3": dict(Names="NamesDir", Vers="VersDir", Prev="PrevDir", Ren="RenDir", SubOf="SubDir",
               json={"names": ["p", "s/p"], "vers": {"p": [1, 2], "s/p": [1]}, "prev": {"p": "", "s/p": "p"},
                     "ren": {"p": "out/p.z", "s/p": ""}, "nb": 2}),
    "U4": dict(Names="NamesSub", Vers="VersSub", Prev="PrevSub", Ren="RenSub", SubOf="SubSub",
               json={"names": ["p", "pq", "r"], "vers": {"p": [1], "pq": [1], "r": [1]},
                     "prev": {"p": "", "pq": "", "r": "p"}, "ren": {"p": "", "pq": "", "r": ""}, "nb": 2}),
}

PROPS = {
    "C01": dict(design=["P_C01_Final", "P_C01_Lck", "P_C01_NoFalsePass"],
                obs=["Obs_C01_Final", "Obs_C01_Lck", "Obs_C01_NoFalsePass", "Obs_C01_FailedReported"],
                universes=["U1", "U3"], dcfg=[("U1", "plain"), ("U1", "crash")]),
    "C04": dict(design=["P_C04_Order"], obs=["Obs_C04_Order", "Obs_C04_Held"],
                universes=["U1", "U2", "U3", "U4"], dcfg=[("U1", "plain"), ("U1", "crash"), ("U2", "clean")]),
    "C05": dict(design=["P_C05_Once", "P_C05_LogOnce"],
                obs=["Obs_C05_Once", "Obs_C05_LogOnce", "Obs_C05_QueryNoEffect", "Obs_C05_DupAnswered", "Obs_C05_KnownDelivered"],
                universes=["U1", "U4"], dcfg=[("U1", "plain"), ("U1", "crash"), ("U1", "clean")]),
    "C06": dict(design=["P_C06_NoStrand", "P_C06_NoLoss", "P_C06_LoggedDelivered", "P_C01_Final", "P_C05_Once"],
                obs=["Obs_C06_NoStrand", "Obs_C06_NoLoss", "Obs_C06_LoggedDelivered", "Obs_C06_Trichotomy", "Obs_C01_Final", "Obs_C05_Once"],
                universes=["U1", "U3"], dcfg=[("U1", "crash")], crashall=True),
    "C09": dict(design=["P_C09_Sound", "P_C09_Complete"],
                obs=["Obs_C09_Sound", "Obs_C09_Complete", "Obs_C09_Scan", "Obs_C09_Received", "Obs_C09_ReceivedN"],
                universes=["U1", "U3"], dcfg=[("U1", "plain"), ("U1", "crash")]),
    "C20": dict(design=["P_C20_OnlyDelivered"], obs=["Obs_C20_OnlyDelivered", "Obs_C20_NoTouch"],
                universes=["U1", "U4"], dcfg=[("U1", "clean")]),
}

BUDGETS = {
    "plain": dict(MaxThr=2, MaxReq=2, MaxCrash=0, MaxCorrupt=1, MaxClean=0, MaxExpire=0, MaxOverwrite=1, MaxQuery=1),
    "crash": dict(MaxThr=2, MaxReq=2, MaxCrash=1, MaxCorrupt=1, MaxClean=0, MaxExpire=0, MaxOverwrite=0, MaxQuery=1),
    "clean": dict(MaxThr=2, MaxReq=2, MaxCrash=0, MaxCorrupt=1, MaxClean=2, MaxExpire=1, MaxOverwrite=0, MaxQuery=1),
}
BUDGETS_THOROUGH = {
    "plain": dict(MaxThr=2, MaxReq=4, MaxCrash=0, MaxCorrupt=1, MaxClean=0, MaxExpire=0, MaxOverwrite=1, MaxQuery=1),
    "crash": dict(MaxThr=2, MaxReq=4, MaxCrash=1, MaxCorrupt=1, MaxClean=0, MaxExpire=0, MaxOverwrite=0, MaxQuery=1),
    "clean": dict(MaxThr=2, MaxReq=4, MaxCrash=0, MaxCorrupt=1, MaxClean=2, MaxExpire=1, MaxOverwrite=0, MaxQuery=2),
}

RULE = ("Design: TLC explores every interleaving of the code-grained receiver model (Stage.tla: one action per critical "
        "section / durable mutation; requests of a protocol-following sender, corruption, crash, cleaning, cache expiry "
        "within the budgets) and checks the property formulas F_* in every state. Code: TLC-generated command sequences "
        "(exhaustive short ones and model-guided random walks, -simulate, seeded) are executed call by call on the real "
        "stage.Stage, each call run to quiescence; for crash properties every occurrence of every hook point of every "
        "command is a crash point (image taken while the goroutine is parked, new Stage + Recover on the image). TLC "
        "(StageTrace.tla) evaluates the same F_* formulas and the step formulas O_* on the observed states. "
        "distinct_nontrivial = executed scenarios that delivered at least one file.")


def kf_consts():
    return {"KF_" + k: tla_bool(kf_open(k)) for k in KFS}


def uni_consts(u):
    U = UNIVERSES[u]
    return {"Names": "<- " + U["Names"], "Vers": "<- " + U["Vers"], "Prev": "<- " + U["Prev"],
            "Ren": "<- " + U["Ren"], "SubOf": "<- " + U["SubOf"], "NB": 2}


def base_consts(u, budgets, hostile, extra=None):
    c = uni_consts(u)
    c.update(budgets)
    c.update(kf_consts())
    c["Hostile"] = tla_bool(hostile)
    c.update({"MaxCmds": 0, "GenCrash": "FALSE", "Emit": "FALSE", "TraceFile": '"none"', "Focus": "{}", "FullOnly": "FALSE",
              "ExpireAnytime": "FALSE"})
    if extra:
        c.update(extra)
    return c


QUICK_CAP = int(os.environ.get("VERIF_QUICK_CAP", "3000"))
THOROUGH_CAP = int(os.environ.get("VERIF_THOROUGH_CAP", "40000"))   # (the thorough generators emit > 700 k sequences)
WANT_OPS = {"C20": {"age", "clean"}, "C06": {"restart"}, "C05": {"restart"}}
# focused exhaustive generation per property: (commands, depth in the quick tier, whole files only)
FOCUS = {"C20": [(["recv", "prepare", "age", "clean", "restart"], 4, True)],
         "C06": [(["recv", "status", "restart"], 4, True)],
         "C05": [(["recv", "received", "restart", "expire"], 4, True), (["recv", "received", "expire"], 5, True)],
         "C04": [(["recv", "status", "timer", "clean"], 4, True)],
         "C09": [(["recv", "prepare", "received", "received2"], 3, False)],
         "C01": [(["recv", "status", "overwrite"], 3, False)]}


def gen_scenarios(ctx, u, path):
    """TLC-generated command sequences for universe u, deduplicated, as harness scenarios."""
    big = dict(MaxThr=1, MaxReq=8, MaxCrash=2, MaxCorrupt=2, MaxClean=3, MaxExpire=1, MaxOverwrite=1, MaxQuery=4)
    seen = set()
    out = open(path, "w")
    n = 0

    def sink(line):
        nonlocal n
        try:
            s = json.loads(line)
        except Exception:
            return
        if not s.startswith("SCN "):
            return
        if s in seen:
            return
        seen.add(s)
        n += 1
        sc = {"id": n, "u": UNIVERSES[u]["json"], "cmds": json.loads(s[4:])["cmds"]}
        out.write(json.dumps(sc) + "\n")

    # exhaustive short sequences
    small = dict(big, MaxReq=3, MaxCrash=1, MaxClean=1, MaxQuery=1)
    hostile = ctx.prop in ("C01", "C20")     # must hold for any request sequence
    c = base_consts(u, small, hostile, {"MaxCmds": 1 if ctx.tier == "quick" else 3, "GenCrash": "TRUE", "Emit": "TRUE"})
    r = tlc(ctx, "MCStage", cfg("GenSpec", c, constraint="EmitScenario"), timeout=900, heap="8g", sink=sink)
    if not r.ok:
        raise Inconclusive("scenario generation (exhaustive) failed:\n" + r.out[-1500:])
    nshort = n
    # exhaustive sequences over the commands the property is about (whole files only, or shorter with parts)
    for (focus, depth, whole) in FOCUS.get(ctx.prop, []):
        depth += 0 if ctx.tier == "quick" else 1
        c = base_consts(u, dict(big, MaxCrash=1), hostile, {"MaxCmds": depth, "GenCrash": "TRUE", "Emit": "TRUE",
                                                           "FullOnly": tla_bool(whole), "ExpireAnytime": "TRUE",
                                                           "Focus": "{" + ", ".join('"%s"' % o for o in focus) + "}"})
        r = tlc(ctx, "MCStage", cfg("GenSpec", c, constraint="EmitScenario"), timeout=1500, heap="8g", sink=sink)
        if not r.ok:
            raise Inconclusive("scenario generation (focus) failed:\n" + r.out[-1500:])
    nfocus = n - nshort
    # model-guided random walks
    num = 150 if ctx.tier == "quick" else 2500
    c = base_consts(u, big, hostile, {"MaxCmds": 9, "GenCrash": "TRUE", "Emit": "TRUE"})
    r = tlc(ctx, "MCStage", cfg("GenSpec", c, constraint="EmitScenario"), timeout=900, heap="4g", sink=sink,
            workers=8, simulate="num=%d" % num, extra=["-depth", "70", "-seed", str(ctx.seed)])
    out.close()
    ctx.notes.setdefault("generated", {})[u] = {"short_exhaustive": nshort, "focus_exhaustive": nfocus,
                                                "random_walks": n - nshort - nfocus}
    cap = QUICK_CAP if ctx.tier == "quick" else THOROUGH_CAP
    if cap and n > cap:
        # the quick tier executes all short sequences, a seeded sample of the focused sequences (at most
        # two thirds of the cap) and a seeded sample of the walk prefixes
        lines = open(path).read().splitlines()
        short, foc, walks = lines[:nshort], lines[nshort:nshort + nfocus], lines[nshort + nfocus:]
        rnd = random.Random(ctx.seed * 7919 + len(u))
        if len(foc) > 2 * cap // 3:
            foc = rnd.sample(foc, 2 * cap // 3)
        # walks that exercise what the property is about come first (e.g. ageing + cleaning for C20)
        want = WANT_OPS.get(ctx.prop)
        idx = list(range(len(walks)))
        rnd.shuffle(idx)
        if want:
            def relevant(i):
                ops = {c["op"] for c in json.loads(walks[i])["cmds"]}
                return want <= ops
            idx.sort(key=lambda i: 0 if relevant(i) else 1)
        keep = sorted(idx[:max(0, cap - len(short) - len(foc))])
        with open(path, "w") as f:
            for l in short + foc + [walks[i] for i in keep]:
                f.write(l + "\n")
        n = len(short) + len(foc) + len(keep)
        ctx.notes["generated"][u]["executed"] = n
    # the recorded failing history of every open finding of this engine is executed on every run, so that
    # the KNOWN-FINDING line does not depend on the sample
    wit = [f for f in known_findings() if f.get("status") == "open" and f.get("witness", {}).get("universe") == u]
    if wit:
        with open(path, "a") as f:
            for i, w in enumerate(wit):
                f.write(json.dumps({"id": 900000 + i, "u": UNIVERSES[u]["json"], "cmds": w["witness"]["cmds"]}) + "\n")
        n += len(wit)
    return n


def run_harness_parallel(ctx, scn, crashall, parts=None, crash2=False):
    """Split the scenario file and run the stage harness in parallel processes."""
    lines = open(scn).read().splitlines()
    parts = parts or NCPU
    chunks = [lines[i::parts] for i in range(parts)]
    outs = []

    def one(i):
        if not chunks[i]:
            return None
        p = "%s.in%d" % (scn, i)
        open(p, "w").write("\n".join(chunks[i]) + "\n")
        tr = "%s.tr%d" % (scn, i)
        summ = "%s.sum%d" % (scn, i)
        args = ["stage", "run", "-in", p, "-traces", tr, "-out", summ, "-work", ctx.fresh("work")]
        if crashall:
            args.append("-crashall")
            if crash2:
                args.append("-crash2")      # repeated crashes: also inside the Recover() that follows
        run_harness(ctx, args, timeout=2400)
        return tr, summ

    with cf.ThreadPoolExecutor(max_workers=parts) as ex:
        for r in ex.map(one, range(parts)):
            if r:
                outs.append(r)
    tr_all = scn + ".traces"
    tot = {"scenarios": 0, "crash_variants": 0, "driver_failures": 0}
    with open(tr_all, "w") as f:
        for tr, summ in outs:
            f.write(open(tr).read())
            s = json.load(open(summ))
            for k in tot:
                tot[k] += s[k]
    return tr_all, tot


def describe(last):
    if not last:
        return None
    e = last.get("oE", {})
    return {"last_event": {"cmd": e.get("cmd"), "res": e.get("res"), "crashed": e.get("crashed")},
            "observed": last.get("oD"), "before": last.get("oP")}


def scenario_of_prefix(res, trace_part):
    """Recover the scenario (commands up to the violating event) from a trace part and the depth TLC reached."""
    lines = open(trace_part).read().splitlines()
    last = cex_last_state(res)
    if not last:
        return None
    upto = last.get("l", 1) - 1
    start = 0
    for i in range(upto):
        if lines[i].startswith('{"op":"reset"'):
            start = i
    head = json.loads(lines[start])
    cmds = [json.loads(x)["cmd"] for x in lines[start + 1:upto]]
    return {"id": head.get("id"), "u": head.get("u"), "cmds": cmds}


def validate(ctx, prop, u, traces, label):
    forms = PROPS[prop]["obs"]
    big = dict(MaxThr=9, MaxReq=99, MaxCrash=9, MaxCorrupt=99, MaxClean=99, MaxExpire=9, MaxOverwrite=9, MaxQuery=99)
    consts = base_consts(u, big, True)
    res = validate_traces(ctx, "MCStage", traces, consts, forms, spec="MCObsSpec")
    bad = False
    for p, nev, ntr, r in res:
        if r.violated:
            bad = True
            sc = scenario_of_prefix(r, p)
            rp = save_replay(ctx, label, {"kind": "stage-trace", "universe": u, "formula": r.violated[0],
                                          "scenario": sc, "state": describe(cex_last_state(r))})
            ctx.violations.append((r.violated[0], rp))
        elif r.postcondition_failed or not r.ok:
            raise Inconclusive("stage trace part %s not fully consumed:\n%s" % (p, r.out[-1500:]))
        else:
            ctx.traces += ntr
            ctx.events += nev
    if bad:
        return
    # open known findings: with one switch off at a time, does the formula fail (on exactly that)?
    sub = traces + ".kf"
    with open(sub, "w") as f:
        cur, keep = [], False
        for line in list(open(traces)) + ['{"op":"reset"}\n']:
            if '"op":"reset"' in line:
                if keep:
                    f.writelines(cur)
                cur, keep = [], False
            cur.append(line)
            if '"restart"' in line or '"recover"' in line or '"expire"' in line or '"crashed":true' in line:
                keep = True

    def kf_run(k):
        if os.path.getsize(sub) == 0:
            return k, []
        c2 = dict(consts)
        c2["KF_" + k] = "FALSE"
        rs = validate_traces(ctx, "MCStage", sub, c2, forms, spec="MCObsSpec", parts=3)
        hits = [(pp, r) for pp, _, _, r in rs if r.violated]
        if hits and os.environ.get("VERIF_SAVE_WITNESS"):
            pp, r = hits[0]
            save_replay(ctx, "witness-%s-%s" % (k, u), {"kind": "stage-witness", "finding": k, "universe": u,
                                                       "formula": r.violated[0], "scenario": scenario_of_prefix(r, pp)})
        return k, [r for _, r in hits]

    opened = [k for k in KFS if kf_open(k)]
    with cf.ThreadPoolExecutor(max_workers=8) as ex:
        for k, hit in ex.map(kf_run, opened):
            if hit:
                line = "%s (%s) reproduced on the real stage: %s false without the exemption" % (
                    k, KF_TEXT.get(k, ""), hit[0].violated[0])
                if line not in ctx.known:
                    ctx.known.append(line)


KF_TEXT = {
    "S1": "log look-ups match a name as a substring of the first matching line",
    "S3": "cleanStrays reads the companion at <x>.part.cmp and never finds it",
    "S7": "a crash between the two renames of fileutil.Move strands <final>/<name>.lck",
    "S9": "the cache rebuilt from the log keeps the first record of a name",
    "S15": "a part of another version rewrites the companion of a validated, undelivered file; Recover then delivers the old bytes under the new hash",
    "S19": "a companion survives the creation of a fresh .part while its file is received/validated",
    "S20": "Recover validates and delivers a complete staged duplicate of an already logged version",
    "S21": "cleanStrays treats a failed file like a delivered one",
}


def check(ctx, replay=None, final=True):
    prop = ctx.prop
    P = PROPS[prop]
    build_harness(ctx)
    if replay:
        return do_replay(ctx, replay)
    # 1. design (the configurations run concurrently with step 2; their results are read at the end)
    budgets = BUDGETS if ctx.tier == "quick" else BUDGETS_THOROUGH

    def design(uk):
        u, kind = uk
        c = base_consts(u, budgets[kind], False)
        return u, kind, tlc(ctx, "MCStage", cfg("DesignSpec", c, P["design"]), timeout=3000,
                            heap="14g")
    design_futs = []

    def design_results():
        for uk in P["dcfg"]:
            u, kind, r = design(uk)
            ctx.states += r.distinct
            ctx.transitions += r.generated
            ctx.notes["design_%s_%s" % (u, kind)] = {"distinct": r.distinct, "generated": r.generated, "depth": r.depth,
                                                     "budgets": budgets[kind], "wall_s": round(r.wall, 1)}
            if r.violated:
                raise Inconclusive("design counterexample for %s in Stage.tla (%s, %s): the model or a KF switch needs "
                                   "attention before the check can decide; see %s" % (r.violated[0], u, kind, r.cex))
            if not r.ok:
                raise Inconclusive("TLC did not finish Stage.tla (%s %s):\n%s" % (u, kind, r.out[-1500:]))
    # 2. behaviours -> real code -> traces -> TLC
    delivered = 0
    for u in P["universes"]:
        scn = ctx.path("scn_%s.ndjson" % u)
        import time as _t
        t0 = _t.time()
        n = gen_scenarios(ctx, u, scn)
        log("  %s: generated %d scenarios in %.0fs" % (u, n, _t.time() - t0))
        crashall = bool(P.get("crashall")) or ctx.tier == "thorough"
        nrich = 48 if ctx.tier == "quick" else 400
        if crashall:
            # fault enumeration on a slice of the scenarios, plain execution of the rest
            lines = open(scn).read().splitlines()
            # the scenarios with the most complete, uncorrupted transfers get the crash enumeration
            def rich(line):
                return sum(1 for c in json.loads(line)["cmds"] if c["op"] == "recv" and c.get("dv") == c.get("v"))
            order = sorted(range(len(lines)), key=lambda i: -rich(lines[i]))
            pick = set(order[:nrich])
            a, bb = scn + ".ca", scn + ".pl"
            open(a, "w").write("\n".join(lines[i] for i in sorted(pick)) + "\n")
            open(bb, "w").write("\n".join(l for i, l in enumerate(lines) if i not in pick) + "\n")
            # the slice gets every first crash and (C06) every second crash inside the following Recover;
            # the rest runs without crashes (quick) or with first crashes only (thorough)
            t1, s1 = run_harness_parallel(ctx, a, True)
            t2, s2 = run_harness_parallel(ctx, bb, False)
            traces = scn + ".all"
            open(traces, "w").write(open(t1).read() + open(t2).read())
            tot = {k: s1[k] + s2[k] for k in s1}
            if prop == "C06":
                # repeated crashes: the few richest scenarios also get a second crash at every hook
                # occurrence of the Recover() that follows the first crash
                a2 = scn + ".c2"
                top = order[:(8 if ctx.tier == "quick" else 60)]
                open(a2, "w").write("\n".join(lines[i] for i in sorted(top)) + "\n")
                t3, s3 = run_harness_parallel(ctx, a2, True, crash2=True)
                open(traces, "a").write(open(t3).read())
                tot = {k: tot[k] + s3[k] for k in tot}
        else:
            traces, tot = run_harness_parallel(ctx, scn, crashall)
        ctx.notes.setdefault("executed", {})[u] = tot
        log("  %s: executed %s at %.0fs" % (u, tot, _t.time() - t0))
        if tot["driver_failures"] > max(3, tot["scenarios"] // 20):
            raise Inconclusive("too many scenarios could not be driven to quiescence: %s" % tot)
        delivered += sum(1 for l in open(traces) if '"arrived":[[' in l)
        if not ctx.samples:
            ls = open(traces).read().splitlines()[:6]
            ctx.samples = [json.loads(x) for x in ls[1:4]]
        validate(ctx, prop, u, traces, "trace-%s" % u)
        log("  %s: validated at %.0fs" % (u, _t.time() - t0))
        if ctx.violations:
            break
    design_results()
    ctx.notes["distinct_nontrivial"] = delivered
    ctx.exhaustive = False
    ctx.assumptions = ["every API call is run to quiescence before the next one (interleavings inside the receiver are "
                       "explored on the design only)", "crash = process crash: completed system calls survive",
                       "file content abstracted to 2 blocks of 4 bytes; MD5 idealised as injective on them",
                       "the design check assumes a sender that follows the protocol (no overlapping parts in flight, "
                       "no repetition of acknowledged parts unless told, versions move forward)"]
    if not final:
        return None
    return finish(ctx, RULE)


def do_replay(ctx, path):
    d = json.load(open(path))
    sc = d.get("scenario")
    if not sc:
        raise Inconclusive("replay file has no scenario")
    u = d["universe"]
    one = ctx.path("one.ndjson")
    open(one, "w").write(json.dumps(sc) + "\n")
    tr = ctx.path("one.tr")
    run_harness(ctx, ["stage", "run", "-in", one, "-traces", tr, "-work", ctx.fresh("work")])
    validate(ctx, ctx.prop, u, tr, "replay")
    return finish(ctx, RULE)
