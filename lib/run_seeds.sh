#!/bin/bash
# run_seeds.sh [tier] <seed dir>... : applies each seeded change to /repo, runs the check of its property, undoes it.
tier=${TIER:-quick}
cd /verif
for s in "$@"; do
  s=$(readlink -f ${s%/}); id=$(basename $s); prop=${id%%-*}
  if ! git -C /repo diff --quiet; then echo "/repo not clean"; exit 2; fi
  if ! git -C /repo apply $s/patch.diff 2>/dev/null; then echo "== $id: patch does not apply to HEAD"; continue; fi
  echo "== $id ($prop)"
  bin/check $prop --tier $tier 2>&1 | grep -E "^(OK|VIOLATION|INCONCLUSIVE|KNOWN|DRIFT)" | cut -c1-200 | sort | uniq -c | head -6
  git -C /repo checkout -- .
done
