#!/usr/bin/env python3
"""Compact rendering of a Stage.tla counterexample (TLC -dumpTrace json)."""
import json, sys
d = json.load(open(sys.argv[1]))["counterexample"]
acts = {a[0][0] if isinstance(a[0], list) else None: a for a in d.get("action", [])}
def tag(t):
    return "%s%s" % (t[0], t[1]) if t[0] not in ("Z", "X") else t[0]
def body(x):
    return "".join(tag(t) + "," for t in x).rstrip(",") if x else None
def show(st):
    dd, m, b, h = st["d"], st["m"], st["b"], st["h"]
    out = []
    for k in ("part", "full", "waitf"):
        for n, v in dd[k].items():
            if v: out.append("%s.%s=[%s]%s" % (n, k, body(v), "(old)" if k == "part" and dd["old"][n] else ""))
    for n, c in dd["cmp"].items():
        if c["v"] != 0 or c["have"]: out.append("%s.cmp=v%s%s p=%s" % (n, c["v"], sorted(c["have"]), c["prev"]))
    for k in ("finalLck", "final"):
        for n, v in dd[k].items():
            if v: out.append("%s:%s=[%s]" % (k, n, body(v)))
    out.append("log=" + ",".join("%s%s" % (r["n"], r["v"]) for r in dd["rlog"]))
    mm = []
    for n, c in m["cache"].items():
        if c["st"] != "unknown": mm.append("%s:%s/v%s/p=%s" % (n, c["st"], c["v"], c["prev"]))
    mm.append("held=%s" % {k: v for k, v in m["held"].items() if v})
    mm.append("plock=%s" % [k for k, v in m["plock"].items() if v])
    if m["thr"]: mm.append("thr=%s" % ["%s v%s %s-%s dv%s %s" % (t["n"], t["v"], t["lo"], t["hi"], t["dv"], t["pc"]) for t in m["thr"]])
    for k in ("vq", "fq", "wait", "timers"):
        if m[k]: mm.append("%s=%s" % (k, m[k]))
    for k in ("val", "fin"):
        if m[k]["n"]: mm.append("%s=%s@%s" % (k, m[k]["n"], m[k]["pc"]))
    if not m["ready"] or m["rec"]: mm.append("ready=%s rec=%s" % (m["ready"], m["rec"]))
    hh = "ans=%s arrive=%s passed=%s cleaned=%s" % (h["ans"], {k: v for k, v in h["arrive"].items() if v} if isinstance(h["arrive"], dict) else h["arrive"], h["passed"], h["cleaned"])
    return "  D " + " ".join(out) + "\n  M " + " ".join(mm) + "\n  H " + hh
states = d["state"]
actions = d.get("action", [])
for i, s in enumerate(states):
    idx, st = s
    name = ""
    for a in actions:
        try:
            if a[2][0] == idx: name = a[1].get("name", "") + str(a[1].get("context", "") or "")
        except Exception: pass
    print("State %s %s" % (idx, name))
    print(show(st))
