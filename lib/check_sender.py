"""C02 C03 C07 C08 C16 C17: the real client.Broker against a real receiver, judged by spec/SenderTrace.tla.

spec/SenderEnv.tla enumerates the environment schedules of a family (configuration, files, changes to them at the
i-th interface call of the broker, request faults, stop / crash moments); the harness (stsh sender run) executes
each schedule on the real Broker (real cache, store, queue, http client) against a real http.Server + stage.Stage
over loopback and records every call the Broker makes on its component interfaces together with the receiver's
state; TLC evaluates the property formulas of SenderTrace.tla on every prefix of every recorded execution.
"""
import json
import os
import random

from vlib import (known_findings, Inconclusive, ScenarioSink, cex_last_state, cfg, finish, kf_open, log, build_harness, run_harness,
                  save_replay, tla_bool, tlc, validate_traces)

RULE = ("TLC enumerates the schedule families of SenderEnv.tla (every configuration of the family; every interface-call "
        "index up to MaxAt as the moment of a stop, crash or file change; every fault kind and position on the first "
        "requests); a seeded sample (quick) or all of them (thorough) is executed on the real client.Broker with real "
        "cache/store/queue/http client against a real http.Server + stage.Stage over loopback; every call of the Broker "
        "on its interfaces is recorded with the receiver's on-disk state and TLC checks the formulas of SenderTrace.tla "
        "as invariants over every prefix of every execution. distinct_nontrivial = executions with a fault, crash, "
        "stop or file change.")

PROPS = {
    # C01 at level L2 (the stage engine decides C01 on the receiver alone; this adds whole transfers in which
    # the source file changes size and content while it is being sent)
    "C01": {"families": ["resize!"], "formulas": ["P_C01_FinalIsVersion", "P_C01_LoggedHash"]},
    "C02": {"families": ["changes2", "changes3", "changes", "crashes", "faulty", "plain"],
            "formulas": ["P_C02_Release", "P_C02_NoFalsePositive"]},
    "C03": {"families": ["faulty", "crashes", "plain", "changes", "changes2"],
            "formulas": ["P_C03_Delivered", "P_C16_Terminates"]},
    "C07": {"families": ["crashes", "recover"],
            "formulas": ["P_C07_OnlyMissing", "P_C07_NoResend", "P_C02_Release", "P_C03_Delivered"]},
    "C08": {"families": ["faulty", "crashes"],
            "formulas": ["P_C08_Remainder", "P_C08_ReceiverCount", "P_C08_SentAfterAck"]},
    "C16": {"families": ["stops", "stops2", "plain", "faulty"],
            "formulas": ["P_C16_Terminates", "P_C16_Recorded", "P_C16_Drain", "P_C16_ExitOrder"]},
    "C17": {"families": ["elig", "changes", "changes2", "plain"],
            "formulas": ["P_C17_Eligible", "P_C17_AllFound", "P_C17_OncePerVersion", "P_C17_WholeVersion"]},
}
# formulas whose truth depends on how long the harness waited (reproduced alone before they count)
TIMED = {"P_C16_Terminates", "P_C03_Delivered", "P_C16_Drain"}
QUICK_PER_FAMILY = 160
THOROUGH_PER_FAMILY = 700
KF = ["S4", "S6", "S23", "S28"]


def gen_family(ctx, fam):
    sp = ctx.path("fam-%s.ndjson" % fam)
    sink = ScenarioSink(sp)
    r = tlc(ctx, "SenderEnv", cfg("Spec", {"Family": '"%s"' % fam, "MaxAt": 40}, constraint="EmitScenario"),
            timeout=600, heap="4g", sink=sink, workers=4)
    if not r.ok:
        raise Inconclusive("TLC did not enumerate family %s:\n%s" % (fam, r.out[-1200:]))
    ctx.states += r.distinct
    ctx.transitions += r.generated
    sink.close()
    out = []
    seen = set()
    for line in open(sp):
        s = json.loads(line)
        k = json.dumps(s, sort_keys=True)
        if k not in seen:
            seen.add(k)
            out.append(s)
    out.sort(key=lambda s: json.dumps(s, sort_keys=True))
    return out


def sender_design(ctx):
    """C16: the goroutine choreography of Broker.Start (Sender.tla) under every interleaving."""
    base = {"Files": '{"f1"}', "Cap": 1, "Senders": '{"x1"}', "Retriers": '{"r1"}', "MaxFaults": 1, "MaxFail": 1,
            "DropParts": "TRUE", "KF_S17": "FALSE", "KF_S27": "FALSE"}
    invs = ["P_C16_NoSendOnClosed", "P_C16_Drain", "P_C16_TrackerLive"]
    runs = [("one file, every stop moment, 1 request failure, 1 failed validation, a vanished file", base, invs, [])]
    if ctx.tier == "thorough":
        runs.append(("the same with termination under weak fairness", dict(base, MaxFaults=0), invs, ["P_C16_Terminates"]))
        runs.append(("two files", dict(base, Files='{"f1", "f2"}', MaxFail=0), invs, []))
    notes = []
    for what, c, inv, props in runs:
        r = tlc(ctx, "Sender", cfg("Spec", c, inv, props), timeout=3000, heap="10g", workers=8)
        ctx.states += r.distinct
        ctx.transitions += r.generated
        notes.append({"run": what, "distinct": r.distinct, "generated": r.generated})
        if r.violated:
            raise Inconclusive("design counterexample for %s in Sender.tla (%s): the model says the shutdown can go wrong; "
                               "not a verdict until reproduced on the real Broker" % (r.violated[0], what))
        if not r.ok:
            raise Inconclusive("TLC did not finish Sender.tla (%s):\n%s" % (what, r.out[-1200:]))
    if ctx.tier == "thorough":
        # the model must still be able to represent the two shutdown hangs that were repaired
        for fid, c in (("S17", dict(base, KF_S17="TRUE")), ("S27", dict(base, Files='{"f1", "f2"}', MaxFail=0, KF_S27="TRUE"))):
            r = tlc(ctx, "Sender", cfg("Spec", c, ["P_C16_TrackerLive"]), timeout=3000, heap="10g", workers=8)
            if "P_C16_TrackerLive" not in r.violated:
                raise Inconclusive("Sender.tla with KF_%s = TRUE (the code as found) no longer shows the hang" % fid)
            notes.append({"run": "as found: " + fid, "hang_found": True})
    ctx.notes["design"] = notes


def constants():
    return {"KF_" + k: tla_bool(kf_open(k)) for k in KF}


def run_and_validate(ctx, scns, tag, formulas, consts, par=24):
    scn = ctx.path("b-%s.ndjson" % tag)
    with open(scn, "w") as f:
        for s in scns:
            f.write(json.dumps(s) + "\n")
    tr = ctx.path("btr-%s.ndjson" % tag)
    run_harness(ctx, ["sender", "run", "-in", scn, "-traces", tr, "-out", ctx.path("bsum-%s.json" % tag), "-par", str(par)],
                timeout=3000)
    res = validate_traces(ctx, "SenderTrace", tr, consts, formulas, spec="Spec", parts=8, heap="3g")
    return tr, res


def scenario_of(last):
    H = (last or {}).get("H") or []
    if H and isinstance(H[0], dict) and H[0].get("op") == "reset":
        return H[0].get("conf"), H
    return None, H


def check(ctx, replay=None, part_of=None):
    """part_of: this run is the L2 part of another engine's check (its rule text); no level change, no finish here"""
    P = PROPS[ctx.prop]
    if part_of:
        return l2(ctx, P, replay, part_of)
    # C16 also has a design model (Sender.tla) whose interleavings TLC explores exhaustively
    ctx.level = "model_checking" if ctx.prop == "C16" else "fault_enumeration"
    ctx.exhaustive = False
    return l2(ctx, P, replay, None)


def l2(ctx, P, replay, part_of):
    build_harness(ctx)
    consts = constants()
    rnd = random.Random(ctx.seed)
    if replay:
        d = json.load(open(replay))
        scns = [d["scenario"]]
        ctx.notes["replay"] = replay
    else:
        scns = []
        per = QUICK_PER_FAMILY if ctx.tier == "quick" else THOROUGH_PER_FAMILY
        fam_sizes = {}
        for fam in P["families"]:
            whole = fam.endswith("!")          # a family that is executed completely in every tier
            fam = fam.rstrip("!")
            allf = gen_family(ctx, fam)
            fam_sizes[fam] = len(allf)
            pick = allf if whole or len(allf) <= per else rnd.sample(allf, per)
            for s in pick:
                s = dict(s)
                s["fam"] = fam
                scns.append(s)
        # the recorded failing schedule of every open finding is executed on every run
        if "P_C03_Delivered" in P["formulas"]:
            for f in known_findings():
                w = f.get("witness", {})
                if f.get("status") == "open" and w.get("engine") == "sender":
                    s = dict(w["scenario"])
                    s["fam"] = "witness-" + f["id"]
                    scns.append(s)
        for i, s in enumerate(scns):
            s["id"] = i + 1
        ctx.notes["families"] = fam_sizes
        ctx.exhaustive = (not part_of) and all(n <= per for n in fam_sizes.values())
        ctx.notes["executed"] = len(scns)
    if ctx.prop == "C16" and not replay:
        sender_design(ctx)
    rounds = 1 if ctx.tier == "quick" or replay else 2
    allres = []
    for rd in range(rounds):
        tr, res = run_and_validate(ctx, scns, "r%d" % rd, P["formulas"], consts)
        allres.append((tr, res))
        # read every counterexample before any further TLC run (re-runs reuse the scratch directory)
        found = {}
        for p, nev, ntr, r in res:
            if r.violated:
                conf, H = scenario_of(cex_last_state(r))
                if conf is None:
                    raise Inconclusive("violation of %s without a readable counterexample" % r.violated[0])
                found[p] = (conf, H)
        for p, nev, ntr, r in res:
            if r.violated:
                conf, H = found[p]
                formula = r.violated[0]
                if formula in TIMED and not replay:
                    # a verdict that depends on waiting long enough: run the schedule alone, three times
                    again = []
                    for k in range(3):
                        c2 = dict(conf)
                        c2["id"] = 9000 + k
                        _, res2 = run_and_validate(ctx, [c2], "solo%d-%d" % (rd, k), [formula], consts, par=1)
                        again.append(any(r2.violated for _, _, _, r2 in res2))
                    if not any(again):
                        ctx.notes.setdefault("timing_dependent_not_reproduced", []).append(
                            {"formula": formula, "scenario": conf})
                        log("note: %s on scenario %s not reproduced when run alone (harness timing); not counted" % (formula, conf.get("id")))
                        continue
                rp = save_replay(ctx, "trace", {"kind": "sender-trace", "formula": formula, "scenario": conf,
                                                "history_tail": H[-12:]})
                ctx.violations.append((formula, rp))
            elif r.postcondition_failed or not r.ok:
                raise Inconclusive("sender trace part not fully consumed:\n" + r.out[-1500:])
            else:
                ctx.traces += ntr
                ctx.events += nev
    if not ctx.violations and not replay:
        tr = allres[0][0]
        lines = open(tr).read().splitlines()
        ctx.samples = (ctx.samples[:3] if part_of else []) + [json.loads(x) for x in lines[:1]] + \
            [json.loads(x) for x in lines if '"op":"transmit"' in x][:2]
        ctx.notes["distinct_nontrivial"] = (ctx.notes.get("distinct_nontrivial", 0) if part_of else 0) + \
            sum(1 for s in scns if s.get("steps") or s.get("faults") or s.get("oneshot"))
        # open findings: does the exempted behaviour still occur on the real code?
        texts = {"S23": "S23 a file whose announced predecessor was deleted at the source before it was sent is held by the "
                        "receiver for ever (the sender is told 'waiting' and releases it)",
                 "S28": "S28 parts of an older version of a file that changed while being sent go out after parts of the newer "
                        "one (two sender threads): receiver and tracker lose count, the file is not completed in this run"}
        if "P_C03_Delivered" in P["formulas"]:
            for fid in ("S23", "S28"):
                if kf_open(fid):
                    c2 = dict(consts)
                    c2["KF_" + fid] = "FALSE"
                    res = validate_traces(ctx, "SenderTrace", tr, c2, ["P_C03_Delivered"], spec="Spec", parts=8, heap="3g")
                    if any(r.violated for _, _, _, r in res):
                        ctx.known.append(texts[fid])
    ctx.assumptions = (ctx.assumptions if part_of else []) + [
                      "the Broker runs with real goroutines: each schedule is one observed interleaving (thorough runs every "
                       "schedule twice); the environment acts at interface-call indices, not at arbitrary instructions",
                       "verdicts that depend on how long the harness waited (termination, delivery at the end) count only when "
                       "they reproduce with the schedule run alone",
                       "one clean interval of the receiver elapses before the end state is taken (wait loops are broken there)"]
    return finish(ctx, part_of + " PLUS (L2) " + RULE if part_of else RULE)
