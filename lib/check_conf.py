"""C19: spec/Conf.tla bound to sts.NewConf / propagate / JSON re-encoding."""
import json
import os

from vlib import (run_harness_chunks, Inconclusive, ScenarioSink, cex_last_state, cfg, finish, kf_open, log,
                  build_harness, run_harness, save_replay, tla_bool, tlc, validate_traces)

RULE = ("TLC enumerates every abstract document (per source and per tag one option of each kind the code distinguishes: "
        "zero-inherited, boolean with marker, boolean without marker, number with marker; each absent / explicitly zero-or-"
        "false / one of two values; tag lists absent or default + one tag) and checks the inheritance and round-trip "
        "formulas on the transcription of propagate() and the marshalers; every document is rendered as YAML and JSON with "
        "concrete options of every kind (threads, compress, poll-attempts, min-age, scan-delay, bin-size, out-dir, group-by, "
        "include, target.key; tag: priority, order, method, chunk-size, last-delay, delete-delay), parsed by the real "
        "sts.NewConf, re-encoded with json.Marshal and parsed again; TLC evaluates the formulas on the observed effective "
        "values. distinct_nontrivial = cases in which some option is inherited.")
FAMS = {
    "sources": dict(WNum="<- W4", WBm="<- W3", WBn="<- W3", WFm="<- W3", TagLists="<- NoTags"),
    # three sources: three values per kind (absent / explicit zero / a value), the file-mode kind fixed
    "sources3": dict(WNum="<- W3", WBm="<- W3", WBn="<- W3", WFm="<- W1", TagLists="<- NoTags"),
    "tags": dict(WNum="<- W1", WBm="<- W1", WBn="<- W1", WFm="<- W1", TagLists="<- Tags2"),
}


def consts(fam, nsrc, emit):
    c = dict(FAMS[fam])
    c.update({"NSrc": nsrc, "KF_ZERO": tla_bool(kf_open("ZERO")), "KF_S12": tla_bool(kf_open("S12")), "Emit": tla_bool(emit)})
    return c


def tconsts(zero, s12):
    return {"NSrc": 0, "WNum": "{}", "WBm": "{}", "WBn": "{}", "WFm": "{}", "TagLists": "{}",
            "KF_ZERO": tla_bool(zero), "KF_S12": tla_bool(s12)}


def check(ctx, replay=None):
    build_harness(ctx)
    traces = ctx.path("ctr.ndjson")
    open(traces, "w").close()
    forms = ["Inv_C19_Inherit", "Inv_C19_RoundTrip"]
    if replay:
        d = json.load(open(replay))
        one = ctx.path("one.ndjson")
        c = d["case"]
        open(one, "w").write(json.dumps({"doc": c["doc"], "eff": c["eff"], "eff2": c["eff2"]}) + "\n")
        run_harness(ctx, ["conf", "replay", "-in", one, "-traces", traces, "-out", ctx.path("s.json")])
        return validate(ctx, traces)
    plan = [("sources", 2), ("tags", 2)] if ctx.tier == "quick" else [("sources", 2), ("sources3", 3), ("tags", 2)]
    for fam, nsrc in plan:
        scn = ctx.path("c_%s.scn" % fam)
        seen = set()

        class Sink(ScenarioSink):
            def __call__(self, line):
                try:
                    s = json.loads(line)
                except Exception:
                    return
                if s.startswith("SCN ") and s not in seen:
                    seen.add(s)
                    self.n += 1
                    self.f.write(s[4:] + "\n")
        sink = Sink(scn)
        r = tlc(ctx, "MCConf", cfg("Spec", consts(fam, nsrc, True), forms, constraint="EmitScenario"),
                timeout=3000, heap="12g", sink=sink, workers=8)
        sink.close()
        ctx.states += r.distinct
        ctx.transitions += r.generated
        ctx.notes["design_" + fam] = {"documents": r.distinct, "sources": nsrc, "wall_s": round(r.wall, 1)}
        if r.violated:
            last = cex_last_state(r)
            one = ctx.path("cex.ndjson")
            open(one, "w").write(json.dumps(last["c"]) + "\n")
            tr = ctx.path("cex.tr")
            run_harness(ctx, ["conf", "replay", "-in", one, "-traces", tr, "-out", ctx.path("s.json")])
            validate(ctx, tr, finish_now=False)
            if not ctx.violations:
                raise Inconclusive("design counterexample %s does not reproduce on the real configuration code" % r.violated[0])
            return finish(ctx, RULE)
        if not r.ok:
            raise Inconclusive("TLC did not finish MCConf:\n" + r.out[-1500:])
        nopts = "2" if ctx.tier == "quick" else "3"
        tr, sums = run_harness_chunks(ctx, "conf", "replay", scn, chunk=800, extra=["-opts", nopts])
        ctx.notes["replay_" + fam] = {k: sum(x[k] for x in sums) for k in ("scenarios", "cases", "diverged", "parse_errors")}
        fd = [x["first_divergences"][0] for x in sums if x.get("first_divergences")]
        if fd:
            ctx.notes["first_divergences_" + fam] = fd[:1]
        with open(traces, "a") as f:
            f.write(open(tr).read())
        os.remove(scn)
    ctx.assumptions = ["one representative concrete option per kind and case; the kinds are those CopyStruct / the "
                       "marshalers distinguish", "the tag-application clause (which files a running sender sends with "
                       "which tag) is decided by the sender-level checks, not here"]
    return validate(ctx, traces)


def validate(ctx, traces, finish_now=True):
    zero, s12 = kf_open("ZERO"), kf_open("S12")
    start = lambda l: True
    res = validate_traces(ctx, "ConfTrace", traces, tconsts(zero, s12), ["Obs_C19_Inherit", "Obs_C19_RoundTrip"], is_start=start)
    bad = False
    for p, nev, ntr, r in res:
        if r.violated:
            bad = True
            last = cex_last_state(r)
            rp = save_replay(ctx, "trace", {"kind": "conf-trace", "formula": r.violated[0], "case": (last or {}).get("c")})
            ctx.violations.append((r.violated[0], rp))
        elif r.postcondition_failed or not r.ok:
            raise Inconclusive("conf trace part not fully consumed:\n" + r.out[-1500:])
        else:
            ctx.traces += ntr
            ctx.events += nev
    if not bad:
        lines = open(traces).read().splitlines()
        ctx.samples = [json.loads(x) for x in lines[len(lines) // 2:len(lines) // 2 + 3]]
        ctx.notes["distinct_nontrivial"] = sum(1 for l in lines if '"A"' in l and ('"V1"' in l or '"V2"' in l))
        res = validate_traces(ctx, "ConfTrace", traces, tconsts(zero, s12), ["Conform"], is_start=start)
        for p, nev, ntr, r in res:
            if r.violated:
                last = cex_last_state(r)
                ctx.drift.append("action=propagate/marshal diverges from Conf.tla on %s" % json.dumps((last or {}).get("c"))[:300])
                break
        for k, z2, s2, text in (("ZERO", False, s12, "an explicitly written zero (0, \"0s\", \"\", []) of a zero-inherited option is overridden by the preceding source / default tag"),
                                ("S12", zero, False, "an explicit include-hidden: false is overridden by an inherited true (no marker)")):
            if not kf_open(k):
                continue
            res = validate_traces(ctx, "ConfTrace", traces, tconsts(z2, s2), ["Obs_C19_Inherit"], is_start=start)
            if any(r.violated for _, _, _, r in res):
                ctx.known.append("%s conf.go propagate/CopyStruct: %s" % (k, text))
    if finish_now:
        return finish(ctx, RULE)
    return 0
