#!/usr/bin/env python3
"""Print the last state of a TLC -dumpTrace json counterexample compactly."""
import json, sys
d = json.load(open(sys.argv[1]))
st = d["counterexample"]["state"] if "counterexample" in d else d
last = st[-1]
if isinstance(last, list): last = last[1]
var = sys.argv[2] if len(sys.argv) > 2 else "hist"
def show(e):
    if isinstance(e, dict) and e.get("op") == "push":
        return "push " + ",".join(f["name"] + ("@%s" % f.get("time")) + ("/%s" % f.get("size")) + ("R" if f.get("rec") else "") for f in e["files"])
    if isinstance(e, dict) and e.get("op") == "pop":
        r = e["res"]; return "pop -> %s[%s+%s] prev=%r grp=%s" % (r["name"], r["off"], r["len"], r["prev"], r["grp"])
    return json.dumps(e)
for k in last:
    if k == var:
        for i, e in enumerate(last[k]): print(i + 1, show(e))
    elif k == "conf": print("conf", json.dumps(last[k]))
