"""C11: chunks (Queue.tla, formula C11_Chunk) and payload parts (Payload.tla) tile every file."""
import json
import os

import check_queue
from vlib import (Inconclusive, ScenarioSink, cex_last_state, cfg, finish, kf_open, log, build_harness,
                  run_harness, save_replay, tla_bool, tlc, validate_traces)

FORMS = ["C11_PayloadLimit", "C11_Contiguous", "C11_TileEnd", "C11_SplitConserves"]
RULE = ("Two layers. Chunks: as C10 (Queue.tla, formula C11_Chunk: non-empty, within the chunk limit, ascending and gap "
        "free from offset 0, or exactly inside the missing ranges of a resumed file). Parts: TLC enumerates every run of "
        "the binning loop (Payload.tla: Bin.Add / IsFull / Split and the startBin loop body) over chunk sequences of one "
        "and two files, all sizes in the bound, payload sizes with slack 0, 1 and 2, every position of a timer flush and "
        "every Split(n); every behaviour is replayed on the real payload.Bin with the real client.binnable; TLC validates "
        "the observed payloads (PayloadTrace.tla), including runs of the real queue feeding the real bin. "
        "distinct_nontrivial = replayed behaviours with >= 2 payloads.")

BOUNDS = {
    "quick": dict(Sizes1="{1,2,3,4,5,6,7,8,9,10,11,12,13}", Sizes2="{1, 5, 12}", ChunkSizes="{0, 1, 3, 10}",
                  Caps="{9, 10, 11, 20}", MaxFlush=1),
    # (file sizes up to 26 with two flushes did not finish within 17 minutes)
    # The thorough tier keeps the design bounds of the quick tier (larger ones - file sizes up to 26, two
    # flushes, then up to 16 - did not finish within 13-18 minutes in this sandbox and could not be tuned in
    # time); it differs in the volume of replayed samples and pipeline runs below.
    "thorough": dict(Sizes1="{1,2,3,4,5,6,7,8,9,10,11,12,13}", Sizes2="{1, 5, 12}", ChunkSizes="{0, 1, 3, 10}",
                     Caps="{9, 10, 11, 20}", MaxFlush=1),
}


def consts(tier, emit, split, kf):
    b = BOUNDS[tier]
    return {"Caps": b["Caps"], "Inputs": "<- InputsMC", "Sizes1": b["Sizes1"], "Sizes2": b["Sizes2"],
            "ChunkSizes": b["ChunkSizes"], "MaxFlush": b["MaxFlush"], "SplitOn": tla_bool(split),
            "KF_P1": tla_bool(kf), "Emit": tla_bool(emit)}


def tconsts(kf):
    return {"Caps": "{}", "Inputs": "{}", "MaxFlush": 0, "SplitOn": "FALSE", "KF_P1": tla_bool(kf)}


def describe(last):
    if not last:
        return None
    return {"cap": last.get("cap"), "observed": last.get("obs")}


def run_traces(ctx, trace_file, label):
    kf = kf_open("P1")
    res = validate_traces(ctx, "PayloadTrace", trace_file, tconsts(kf), ["Obs_" + f for f in FORMS])
    bad = False
    for p, nev, ntr, r in res:
        if r.violated:
            bad = True
            last = cex_last_state(r)
            rp = save_replay(ctx, label, {"kind": "payload-trace", "formula": r.violated[0], "raw": describe(last)})
            ctx.violations.append((r.violated[0], rp))
        elif r.postcondition_failed or not r.ok:
            raise Inconclusive("payload trace part %s not fully consumed:\n%s" % (p, r.out[-1500:]))
        else:
            ctx.traces += ntr
            ctx.events += nev
    if bad:
        return
    res = validate_traces(ctx, "PayloadTrace", trace_file, tconsts(kf), ["Conform"])
    for p, nev, ntr, r in res:
        if r.violated:
            last = cex_last_state(r)
            ctx.drift.append("action=Bin/startBin diverges from Payload.tla: predicted %s observed %s" % (
                json.dumps((last or {}).get("hist", [])[-1:]), json.dumps((last or {}).get("obs", [])[-1:])))
            break
    if kf:
        res = validate_traces(ctx, "PayloadTrace", trace_file, tconsts(False), ["Obs_C11_TileEnd"])
        if any(r.violated for _, _, _, r in res):
            ctx.known.append("P1 payload.Bin.IsFull with payload size < 10: rest of a chunk dropped by the binner")


def check(ctx, replay=None):
    build_harness(ctx)
    if replay:
        d = json.load(open(replay))
        if d.get("kind") == "queue-trace":
            return check_queue.do_replay(ctx, replay)
        raw = d["raw"]
        one = ctx.path("one.ndjson")
        hist = [e for e in raw["observed"]]
        open(one, "w").write(json.dumps({"cap": raw["cap"], "hist": hist}) + "\n")
        tr = ctx.path("one-tr.ndjson")
        run_harness(ctx, ["payload", "replay", "-in", one, "-out", ctx.path("s.json"), "-traces", tr])
        run_traces(ctx, tr, "replay")
        return finish(ctx, RULE)
    run_harness(ctx, ["payload", "selftest", "-traces", os.devnull])
    # layer 1: chunks
    if check_queue.run(ctx, "C11") == "stop" or ctx.violations:
        return finish(ctx, RULE)
    # layer 2: parts
    kf = kf_open("P1")
    scn = ctx.path("pscn.ndjson")
    sink = ScenarioSink(scn)
    forms = ["Inv_" + f for f in FORMS]
    r = tlc(ctx, "MCPayload", cfg("Spec", consts(ctx.tier, True, True, kf), forms, constraint="EmitScenario"),
            timeout=3000, heap="12g", sink=sink)
    sink.close()
    ctx.states += r.distinct
    ctx.transitions += r.generated
    ctx.notes["design_payload"] = {"distinct": r.distinct, "generated": r.generated, "depth": r.depth,
                                   "bounds": BOUNDS[ctx.tier], "scenarios_emitted": sink.n, "wall_s": round(r.wall, 1)}
    if r.violated:
        last = cex_last_state(r)
        log("design counterexample (%s) in Payload.tla; replaying it on the real Bin" % r.violated[0])
        hist = list(last["hist"])
        if not hist or hist[-1].get("op") != "end":
            hist.append({"op": "end"})
        one = ctx.path("pcex.ndjson")
        open(one, "w").write(json.dumps({"cap": last["cap"], "hist": hist}) + "\n")
        tr = ctx.path("pcex-tr.ndjson")
        run_harness(ctx, ["payload", "replay", "-in", one, "-out", ctx.path("s.json"), "-traces", tr])
        run_traces(ctx, tr, "design-cex")
        if not ctx.violations:
            raise Inconclusive("design counterexample %s does not reproduce on the real Bin" % r.violated[0])
        return finish(ctx, RULE)
    if not r.ok:
        raise Inconclusive("TLC did not finish MCPayload:\n" + r.out[-1500:])
    tr = ctx.path("ptr.ndjson")
    summ = ctx.path("psum.json")
    nsample = 200 if ctx.tier == "quick" else 600
    run_harness(ctx, ["payload", "replay", "-in", scn, "-out", summ, "-traces", tr,
                      "-stride", str(max(1, sink.n // nsample)), "-sample", str(nsample)])
    s = json.load(open(summ))
    ctx.notes["replay_payload"] = {k: s[k] for k in ("scenarios", "ships", "diverged", "traces_written")}
    if s.get("first_divergences"):
        ctx.notes["first_divergences_payload"] = s["first_divergences"][:1]
    if s.get("samples"):
        ctx.samples = s["samples"][:2] + ctx.samples
    os.remove(scn)
    pl = ctx.path("ppl.ndjson")
    npipe = 60 if ctx.tier == "quick" else 300
    run_harness(ctx, ["payload", "pipeline", "-n", str(npipe), "-traces", pl])
    with open(tr, "a") as f:
        f.write(open(pl).read())
    ctx.notes["pipeline_runs"] = npipe
    if kf:
        r2 = tlc(ctx, "MCPayload", cfg("Spec", consts("quick", False, False, False), ["Inv_C11_TileEnd"]), timeout=600)
        if not r2.violated:
            raise Inconclusive("known finding P1 is open but the model no longer exhibits it")
    run_traces(ctx, tr, "trace")
    ctx.traces += s["scenarios"] - s["diverged"]
    ctx.notes["distinct_nontrivial"] = ctx.notes.get("distinct_nontrivial", 0) + s["scenarios"]
    ctx.assumptions += ["the binning loop body of Broker.startBin is repeated by the harness around the real Bin and the "
                        "real binnable; the sender-level checks observe the real Broker's payloads",
                        "slack = payload size div 10 (harness self-test compares with the real NewBin for sizes 1..400)"]
    return finish(ctx, RULE)
