"""C13: spec/Framing.tla bound to payload Encoder / Decoder and to a real HTTP request."""
import json
import os

from vlib import (Inconclusive, cex_last_state, cfg, finish, kf_open, log, build_harness, run_harness, save_replay,
                  tla_bool, tlc, validate_traces)

RULE = ("TLC explores the encoder and decoder state machines (Encoder.Read, NewDecoder, PartDecoder.Read) over tagged bytes "
        "for every payload of 1-3 parts with lengths 1, 2, 5, every sequence of reader buffer sizes {1,2,3,8} on both sides "
        "and every truncation point, and checks round trip, refusal and no-foreign-byte formulas; every (payload, cut) is "
        "concretised (slices at the start / middle / end of real files, names with unicode, spaces and sub-directories, "
        "rename targets, predecessors, nanosecond times, seeded buffer sizes) and run through the real payload.Bin encoder "
        "and payload.NewDecoder, every intact payload through http.Client.Transmit -> http.Server.routeData -> a "
        "recording gatekeeper at gzip level 0 and a seeded level 1-9, and every payload cut inside its body as a well-formed short "
        "request (Content-Length, and gzip + chunked); the end of a short stream is signalled both ways (io.EOF alone / with the last bytes); TLC evaluates the formulas on the observed parts. "
        "distinct_nontrivial = cases with more than one part or a cut.")


def consts(emit, s10):
    return {"Payloads": "<- PayloadsSmall", "HdrLen": 3, "MetaLens": "{3}", "EofStyles": '{"separate", "withdata"}', "Bufs": "{1, 2, 3, 8}",
            "KF_S10": tla_bool(s10), "Emit": tla_bool(emit)}


def check(ctx, replay=None):
    build_harness(ctx)
    s10 = kf_open("S10")
    scn = ctx.path("fscn.ndjson")
    if replay:
        d = json.load(open(replay))
        open(scn, "w").write(json.dumps(d["case"]) + "\n")
    else:
        seen = set()
        out = open(scn, "w")

        def sink(line):
            try:
                s = json.loads(line)
            except Exception:
                return
            if s.startswith("SCN "):
                d = json.loads(s[4:])
                k = (tuple(d["lens"]), d["cut"], d["metaLen"], d["eof"])
                if k not in seen:
                    seen.add(k)
                    out.write(json.dumps({"lens": d["lens"], "cut": d["cut"], "metaLen": d["metaLen"], "eof": d["eof"]}) + "\n")
        r = tlc(ctx, "MCFraming", cfg("Spec", consts(True, s10), ["Inv_C13_RoundTrip", "Inv_C13_Refuse", "Inv_C13_NoForeign"],
                                      constraint="EmitScenario"), timeout=1200, heap="8g", sink=sink, workers=8)
        out.close()
        ctx.states += r.distinct
        ctx.transitions += r.generated
        ctx.notes["design"] = {"distinct": r.distinct, "generated": r.generated, "cases": len(seen)}
        if r.violated:
            raise Inconclusive("design counterexample %s in Framing.tla" % r.violated[0])
        if not r.ok:
            raise Inconclusive("TLC did not finish MCFraming:\n" + r.out[-1500:])
    traces = ctx.path("ftr.ndjson")
    open(traces, "w").close()
    rounds = 3 if ctx.tier == "quick" else 40
    for i in range(rounds):
        tr = ctx.path("ftr%d.ndjson" % i)
        run_harness(ctx, ["framing", "replay", "-in", scn, "-traces", tr, "-out", ctx.path("fsum.json"), "-http"],
                    env_extra={"VERIF_SEED": str(ctx.seed * 1000 + i)})
        with open(traces, "a") as f:
            f.write(open(tr).read())
    ctx.notes["rounds_with_fresh_seeds"] = rounds
    start = lambda l: True
    obs = ["Obs_C13_RoundTrip", "Obs_C13_Refuse", "Obs_C13_NoForeign"]
    tc = {"Payloads": "{}", "HdrLen": 3, "MetaLens": "{}", "EofStyles": "{}", "Bufs": "{}", "KF_S10": tla_bool(s10)}
    res = validate_traces(ctx, "FramingTrace", traces, tc, obs, is_start=start, parts=4)
    for p, nev, ntr, r in res:
        if r.violated:
            last = cex_last_state(r)
            ev = (last or {}).get("e", {})
            rp = save_replay(ctx, "trace", {"kind": "framing-trace", "formula": r.violated[0], "observed": ev,
                                            "case": {"lens": ev.get("lens"), "cut": ev.get("cut"), "metaLen": ev.get("metaLen", 0), "eof": ev.get("eof", "separate")}})
            ctx.violations.append((r.violated[0], rp))
        elif r.postcondition_failed or not r.ok:
            raise Inconclusive("framing trace part not fully consumed:\n" + r.out[-1500:])
        else:
            ctx.traces += ntr
            ctx.events += nev
    if not ctx.violations:
        lines = open(traces).read().splitlines()
        ctx.samples = [json.loads(x) for x in lines[:2] + lines[-2:]]
        ctx.notes["distinct_nontrivial"] = sum(1 for l in lines if '"cut":-1' not in l or '"lens":[' in l and ',' in l.split('"lens":[')[1].split(']')[0])
        if s10:
            tc2 = dict(tc)
            tc2["KF_S10"] = "FALSE"
            res = validate_traces(ctx, "FramingTrace", traces, tc2, ["Obs_C13_Refuse"], is_start=start, parts=4)
            if any(r.violated for _, _, _, r in res):
                ctx.known.append("S10 payload.PartDecoder.Read passes the stream's EOF through: a part whose body ends early is "
                                 "handed to Receive as complete")
    ctx.assumptions = ["wrong header-length announcements (X-STS-MetaLen) are outside the model: a sender of this code base "
                       "always announces the length of the header it wrote", "a cut inside the JSON header is not observable in "
                       "memory (NewDecoder blocks); over HTTP the request fails as a whole",
                       "a transport-level abort (connection reset, truncated gzip stream) surfaces as a transport error before the part reader sees an end of stream; the short requests sent here end cleanly",
                       "gzip levels, unicode and nanoseconds are concretisation parameters (seeded), not model dimensions"]
    return finish(ctx, RULE)
