"""C14 C15: spec/Gate.tla bound to the real `sts` binary running as receiver (level L3)."""
import concurrent.futures as cf
import json
import os
import subprocess

from vlib import (GOENV, REPO, Inconclusive, ScenarioSink, cex_last_state, cfg, finish, kf_open, log, build_harness,
                  run_harness, save_replay, tla_bool, tlc, validate_traces)

FORMS = {"C14": ["C14_Confined", "C14_RefusedClean"], "C15": ["C15_Refused", "C15_Unavailable", "C14_RefusedClean"]}
RULE = ("TLC enumerates every abstract request (route x source value x key value x file name / rename target / static "
        "path as segment sequences with '..', absolute, empty and dot segments x configured source and key lists x "
        "recovery in progress or not) on a model of handleValidate, standardValidator, the source -> directory mapping "
        "and the routes, and checks confinement and refusal formulas; the requests are rendered (header or query string, "
        "either separator convention, percent-encoded traversal for the static route) and sent over loopback HTTP to the "
        "real sts binary running as a receiver in a sandbox whose roots are a proper sub-directory; the whole sandbox is "
        "listed before and after each request; 'recovery in progress' is the real start-up Recover() parked at a pause "
        "point. TLC evaluates the formulas on the observed status and touched locations. "
        "distinct_nontrivial = requests that touched the file system.")


def build_sts(ctx):
    out = ctx.path("sts_bin")
    env = dict(os.environ)
    env.update(GOENV)
    for k in ("GOSUMDB", "GOTOOLCHAIN"):
        env.pop(k, None)
    r = subprocess.run(["go", "build", "-tags", "verif", "-o", out, "./main"], cwd=REPO, env=env, capture_output=True, text=True)
    if r.returncode != 0:
        raise Inconclusive("sts binary build failed:\n" + r.stdout + r.stderr)
    return out


def consts(emit):
    return {"Confs": "<- ConfsAll", "Srcs": "<- SrcsAll", "Keys": "<- KeysAll", "NamePool": "<- NamesAll",
            "RenPool": "<- RensAll", "StaticPool": "<- StaticAll", "KF_S8": tla_bool(kf_open("S8")),
            "KF_S14": tla_bool(kf_open("S14")), "Emit": tla_bool(emit)}


def tconsts(s8, s14):
    return {"Confs": "{}", "Srcs": "{}", "Keys": "{}", "NamePool": "{}", "RenPool": "{}", "StaticPool": "{}",
            "KF_S8": tla_bool(s8), "KF_S14": tla_bool(s14)}


def check(ctx, replay=None):
    prop = ctx.prop
    build_harness(ctx)
    sts = build_sts(ctx)
    forms = ["Inv_" + f for f in FORMS[prop]]
    if replay:
        d = json.load(open(replay))
        one = ctx.path("one.ndjson")
        open(one, "w").write(json.dumps(d["case"]) + "\n")
        tr = ctx.path("one.tr")
        run_harness(ctx, ["gate", "run", "-bin", sts, "-in", one, "-traces", tr, "-out", ctx.path("s.json")])
        return validate(ctx, prop, tr)
    cases = []
    seen = set()

    def sink(line):
        try:
            s = json.loads(line)
        except Exception:
            return
        if s.startswith("SCN ") and s not in seen:
            seen.add(s)
            cases.append(json.loads(s[4:]))
    r = tlc(ctx, "MCGate", cfg("Spec", consts(True), forms, constraint="EmitScenario"), timeout=1200, heap="8g",
            sink=sink, workers=4)
    ctx.states += r.distinct
    ctx.transitions += r.generated
    ctx.notes["design"] = {"distinct": r.distinct, "generated": r.generated, "abstract_requests": len(cases)}
    if r.violated:
        raise Inconclusive("design counterexample for %s in Gate.tla: a behaviour switch (KF_S8) is set to 'as found' but "
                           "the finding is not marked open/exempt" % r.violated[0])
    if not r.ok:
        raise Inconclusive("TLC did not finish MCGate:\n" + r.out[-1500:])
    # select and concretise
    import random
    rng = random.Random(ctx.seed)
    rng.shuffle(cases)
    if ctx.tier == "quick":
        keep = 1500
    else:
        keep = len(cases)
    sel = cases[:keep]
    for i, c in enumerate(sel):
        c["variant"] = rng.randrange(12)
        if not c["ready"]:
            c["pause"] = "stage.rec.begin" if i % 5 == 0 else ("stage.rec.walked" if i % 2 else "stage.rec.cached")
    groups = {}
    for c in sel:
        groups.setdefault((tuple(c["sources"]), tuple(c["keys"]), c["ready"], c.get("pause", "")), []).append(c)
    files = []
    for i, (k, cs) in enumerate(sorted(groups.items(), key=lambda kv: str(kv[0]))):
        # several servers per group in parallel
        n = max(1, min(4, len(cs) // 150))
        for j in range(n):
            p = ctx.path("g%d_%d.ndjson" % (i, j))
            open(p, "w").write("\n".join(json.dumps(c) for c in cs[j::n]) + "\n")
            files.append(p)

    def one(p):
        run_harness(ctx, ["gate", "run", "-bin", sts, "-in", p, "-traces", p + ".tr", "-out", p + ".sum"], timeout=1800)
        return p + ".tr", json.load(open(p + ".sum"))
    traces = ctx.path("gate.tr")
    tot = {"cases": 0, "touching": 0, "transport_failures": 0}
    with cf.ThreadPoolExecutor(max_workers=12) as ex, open(traces, "w") as f:
        for tr, s in ex.map(one, files):
            f.write(open(tr).read())
            for k in tot:
                tot[k] += s[k]
    ctx.notes["executed"] = tot
    ctx.notes["distinct_nontrivial"] = tot["touching"]
    if tot["transport_failures"] > tot["cases"] // 50:
        raise Inconclusive("too many requests failed at transport level: %s" % tot)
    ctx.assumptions = ["sandbox = temporary directory; server roots are top/root/{stage,final,logs,serve}; canary files sit "
                       "outside", "HTTP/1.1 over loopback only (no TLS, no HTTP/3)",
                       "the receiver's messages log is not part of the listing"]
    return validate(ctx, prop, traces)


def validate(ctx, prop, traces):
    s8, s14 = kf_open("S8"), kf_open("S14")
    start = lambda l: True
    obs = ["Obs_" + f for f in FORMS[prop]]
    res = validate_traces(ctx, "GateTrace", traces, tconsts(s8, s14), obs, is_start=start, parts=4)
    bad = False
    for p, nev, ntr, r in res:
        if r.violated:
            bad = True
            last = cex_last_state(r)
            ev = (last or {}).get("ev", {})
            case = {"sources": sorted(ev.get("conf", {}).get("sources", [])), "keys": sorted(ev.get("conf", {}).get("keys", [])),
                    "ready": ev.get("ready", True), "req": ev.get("req"), "variant": 0}
            rp = save_replay(ctx, "trace", {"kind": "gate-trace", "formula": r.violated[0], "case": case, "observed": ev.get("ans")})
            ctx.violations.append((r.violated[0], rp))
        elif r.postcondition_failed or not r.ok:
            raise Inconclusive("gate trace part not fully consumed:\n" + r.out[-1500:])
        else:
            ctx.traces += ntr
            ctx.events += nev
    if not bad:
        lines = open(traces).read().splitlines()
        ctx.samples = [json.loads(x) for x in lines[:3]]
        res = validate_traces(ctx, "GateTrace", traces, tconsts(s8, s14), ["Conform"], is_start=start, parts=4)
        for p, nev, ntr, r in res:
            if r.violated:
                last = cex_last_state(r)
                ctx.drift.append("action=Request diverges from Gate.tla on %s" % json.dumps((last or {}).get("ev"))[:400])
                break
        if s14 and prop == "C15":
            res = validate_traces(ctx, "GateTrace", traces, tconsts(s8, False), ["Obs_C15_Unavailable"], is_start=start, parts=4)
            if any(r.violated for _, _, _, r in res):
                ctx.known.append("S14 main/server.go starts Recover() as a goroutine: until it runs the source is still 'ready' "
                                 "and a request arriving at that moment is processed (Obs_C15_Unavailable false without the exemption)")
    return finish(ctx, RULE)
