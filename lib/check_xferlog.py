"""C18: spec/XferLog.tla bound to log.FileIO."""
import json
import os

from vlib import (run_harness_chunks, Inconclusive, ScenarioSink, cex_last_state, cfg, finish, kf_open, log, build_harness,
                  run_harness, save_replay, tla_bool, tlc, validate_traces)

FORMS = ["C18_Complete", "C18_Exact", "C18_Parse"]
RULE = ("TLC enumerates every history of writes (names that are prefixes / suffixes / substrings of one another, two hashes, "
        "with and without rename target, over three days) followed by every look-up (name, optional hash, every window of "
        "day/half-day times, also reversed and empty) or Parse, on a character-level model of the record format, the day "
        "walk and the line matching; a deterministic sample of the enumerated histories and seeded random ones with longer "
        "names are executed on the real log.FileIO (earlier days pre-seeded as day files, the last day through the API) and "
        "compared with the prediction; TLC evaluates the C18 formulas on the observed answers. "
        "distinct_nontrivial = replayed histories whose query is answered yes or parses at least one record.")


def consts(names, maxrecs, emit, s1, s2):
    return {"NamePool": "<- " + names, "HashPool": "<- Hashes2", "RenPool": "<- Rens2", "LastDay": 3,
            "MaxRecs": maxrecs, "KF_S1": tla_bool(s1), "KF_S2": tla_bool(s2), "Emit": tla_bool(emit)}


def tconsts(s1, s2):
    return {"NamePool": "{}", "HashPool": "{}", "RenPool": "{}", "LastDay": 3, "MaxRecs": 0,
            "KF_S1": tla_bool(s1), "KF_S2": tla_bool(s2)}


def check(ctx, replay=None):
    build_harness(ctx)
    s1, s2 = kf_open("S1"), kf_open("S2")
    forms = ["Inv_" + f for f in FORMS]
    traces = ctx.path("xtr.ndjson")
    open(traces, "w").close()
    if replay:
        d = json.load(open(replay))
        one = ctx.path("one.ndjson")
        open(one, "w").write(json.dumps(d["scenario"]) + "\n")
        run_harness(ctx, ["xferlog", "replay", "-in", one, "-traces", traces, "-out", ctx.path("s.json")])
        return validate(ctx, traces, s1, s2)
    nontrivial = 0
    for fam, names in (("plain", "Names3"), ("colon", "NamesColon")):
        # (three records over the substring name pool do not finish within an hour: the thorough tier
        # replays a denser sample of the two-record space and more random histories instead)
        maxrecs = 2
        scn = ctx.path("xscn_%s.ndjson" % fam)
        stride = 40 if ctx.tier == "quick" else 4

        class Sink(ScenarioSink):
            def __call__(self, line):
                try:
                    s = json.loads(line)
                except Exception:
                    return
                if s.startswith("SCN "):
                    self.n += 1
                    if self.n % stride == 0:
                        self.f.write(s[4:] + "\n")
        sink = Sink(scn)
        r = tlc(ctx, "MCXferLog", cfg("Spec", consts(names, maxrecs, True, s1, s2), forms, constraint="EmitScenario"),
                timeout=3000, heap="12g", sink=sink)
        sink.close()
        ctx.states += r.distinct
        ctx.transitions += r.generated
        ctx.notes["design_" + fam] = {"distinct": r.distinct, "generated": r.generated, "histories": sink.n,
                                      "replayed_every": stride, "max_records": maxrecs, "wall_s": round(r.wall, 1)}
        if r.violated:
            last = cex_last_state(r)
            one = ctx.path("cex.ndjson")
            open(one, "w").write(json.dumps({"kind": last["kind"], "hist": last["hist"]}) + "\n")
            tr = ctx.path("cex.tr")
            run_harness(ctx, ["xferlog", "replay", "-in", one, "-traces", tr, "-out", ctx.path("s.json")])
            rc = validate(ctx, tr, s1, s2, finish_now=False)
            if not ctx.violations:
                raise Inconclusive("design counterexample %s does not reproduce on the real log" % r.violated[0])
            return finish(ctx, RULE)
        if not r.ok:
            raise Inconclusive("TLC did not finish MCXferLog:\n" + r.out[-1500:])
        tr, sums = run_harness_chunks(ctx, "xferlog", "replay", scn)
        ctx.notes["replay_" + fam] = {k: sum(x[k] for x in sums) for k in ("scenarios", "diverged")}
        fd = [x["first_divergences"][0] for x in sums if x.get("first_divergences")]
        if fd:
            ctx.notes["first_divergences_" + fam] = fd[:1]
        with open(traces, "a") as f:
            f.write(open(tr).read())
        os.remove(scn)
    rnd = ctx.path("rnd.ndjson")
    n = 300 if ctx.tier == "quick" else 5000
    run_harness(ctx, ["xferlog", "random", "-n", str(n), "-traces", rnd])
    with open(traces, "a") as f:
        f.write(open(rnd).read())
    ctx.notes["random_histories"] = n
    ctx.assumptions = ["times are 06:00 / 18:00 local time of consecutive days ending today; earlier days are written as "
                       "day files by the harness in the record format", "concurrent writers: see thorough tier"]
    return validate(ctx, traces, s1, s2)


def validate(ctx, traces, s1, s2, finish_now=True):
    res = validate_traces(ctx, "XferLogTrace", traces, tconsts(s1, s2), ["Obs_" + f for f in FORMS])
    bad = False
    for p, nev, ntr, r in res:
        if r.violated:
            bad = True
            last = cex_last_state(r)
            sc = {"kind": last.get("kind"), "hist": last.get("obs")} if last else None
            rp = save_replay(ctx, "trace", {"kind": "xferlog-trace", "formula": r.violated[0], "scenario": sc})
            ctx.violations.append((r.violated[0], rp))
        elif r.postcondition_failed or not r.ok:
            raise Inconclusive("xferlog trace part not fully consumed:\n" + r.out[-1500:])
        else:
            ctx.traces += ntr
            ctx.events += nev
    if not bad:
        sample = [json.loads(x) for x in open(traces).read().splitlines()[:5]]
        ctx.samples = sample
        ctx.notes["distinct_nontrivial"] = sum(1 for l in open(traces) if '"res":true' in l or '"ok":true' in l)
        res = validate_traces(ctx, "XferLogTrace", traces, tconsts(s1, s2), ["Conform"])
        for p, nev, ntr, r in res:
            if r.violated:
                last = cex_last_state(r)
                ctx.drift.append("action=Search/Parse diverges from XferLog.tla: predicted %s observed %s" % (
                    json.dumps((last or {}).get("hist", [])[-1:]), json.dumps((last or {}).get("obs", [])[-1:])))
                break
        if s2:
            res = validate_traces(ctx, "XferLogTrace", traces, tconsts(s1, False), ["Obs_C18_Parse", "Obs_C18_Exact"])
            hit = [r for _, _, _, r in res if r.violated]
            if hit:
                ctx.known.append("S2 log record format: a name containing ':' is split by Parse and credited to its prefix "
                                 "by look-ups (%s false without the exemption)" % hit[0].violated[0])
    if finish_now:
        return finish(ctx, RULE)
    return 0
