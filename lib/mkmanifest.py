#!/usr/bin/env python3
"""Regenerates MANIFEST.json from the table below (keeps it valid at all times)."""
import json, os, subprocess
VERIF = os.path.dirname(os.path.dirname(os.path.abspath(__file__)))
BASE_OFF = ("cd /repo && GOFLAGS=-mod=mod go test -json -vet=off -count=1 -timeout 25m ./...")

CLAIMED = {
 "C10": dict(engine="queue", design="3 C10",
   text="TLC checks the four C10 formulas (next file in configured order, predecessor = a handled file of the group / the most recently completed one, no self reference, acyclic while names are unique, resumed files keep theirs) in every state of Queue.tla, a statement-by-statement transcription of queue.Tagged, for every Push/Pop history within the bounds; every enumerated history is replayed on the real queue and compared result by result, and TLC evaluates the same formulas on the observed results of diverging, sampled and random longer histories. Model checking of the design plus exhaustive conformance replay is the right level for a mutex-protected sequential component whose property quantifies over operation histories.",
   note="Trusted: TLC, the Json module, the harness's rendering of abstract times (hours before/after now) and of name ranks; bounds: quick 8 operations / 3 pushes, thorough 9 / 4, 9 batch kinds, 4 orders; random histories up to 40 operations over <= 4 groups.",
   technique="TLA+ transcription of queue.Tagged model-checked with TLC; TLC-enumerated histories replayed on the real queue; TLC trace validation of observed Pop results"),
 "C12": dict(engine="queue", design="3 C12",
   text="TLC checks strict priority, no idle Pop while a group is ready, last-file-delay skipping and the rotation formula (at least once between two chunks of a group, exactly once while that group stayed ready) in every state of Queue.tla for all histories over 4 groups with 2 priorities and delay on/off; every enumerated history is replayed on the real queue.Tagged; TLC evaluates the formulas on observed results.",
   note="Trusted as C10. 'ready' is computed from the observed history (pushed minus emitted bytes), a young single pending file counts as withheld.",
   technique="TLA+ transcription of queue.Tagged model-checked with TLC; replay of enumerated histories; TLC trace validation"),
}
CLAIMED["C11"] = dict(engine="payload", design="3 C11",
   text="Two layers, both decided by TLC on transcriptions and re-decided on the real code: chunks (Queue.tla, formula C11_Chunk over every Push/Pop history) and payload parts (Payload.tla: Bin.Add/IsFull/Split and the startBin loop body; every chunk sequence of one or two files within the size bounds, payload sizes with slack 0/1/2, every flush position and every Split(n)). Every TLC behaviour is replayed on the real queue.Tagged / payload.Bin / client.binnable and compared event by event; TLC evaluates the tiling formulas on the observed payload headers, also for random runs of the real queue feeding the real bin.",
   note="Trusted: as C10, plus the harness's repetition of the private startBin loop body around the real Bin (the sender-level harness observes the real Broker's payloads). Bounds: quick file sizes 1..13 x chunk sizes {whole,1,3,10} x payload sizes {9,10,11,20}, one flush; thorough sizes 1..26, payload sizes {3,9,10,11,20}, two flushes.",
   technique="TLA+ transcriptions of queue allocation and payload.Bin model-checked with TLC; replay of every enumerated behaviour on the real code; TLC trace validation of observed chunks and payload headers")
NOT_YET = {}
ALL = ["C%02d" % i for i in range(1, 21)]

def main():
    hooks = subprocess.run(["git", "-C", "/repo", "log", "--format=%H %s"], capture_output=True, text=True).stdout.splitlines()
    hook_commits = [l.split()[0] for l in hooks if l.split(" ", 1)[1].startswith("verif:")]
    checks = []
    for pid in ALL:
        if pid not in CLAIMED:
            continue
        c = CLAIMED[pid]
        checks.append({
            "property_id": pid,
            "quick_cmd": "bin/check %s --tier quick" % pid,
            "thorough_cmd": "bin/check %s --tier thorough" % pid,
            "evidence_file": "/verif/evidence/%s.json" % pid,
            "replay_cmd_template": "bin/check %s --replay {path}" % pid,
            "engine": c["engine"],
            "level_claimed": {"category": c.get("category", "model_checking"), "text": c["text"], "design_ref": "DESIGN.md section " + c["design"]},
            "level_note": c["note"],
            "technique": c["technique"],
        })
    na = [{"property_id": p, "reason": NOT_YET.get(p, "check not built yet in this round; planned with the same technique (DESIGN.md section 3)")}
          for p in ALL if p not in CLAIMED]
    m = {
        "version": 1,
        "setup_cmd": "bin/setup",
        "hooks": {"guard": "verif", "enable": "go build -tags verif (the harness module /verif/harness replaces github.com/arm-doe/sts with /repo)",
                  "baseline_off_cmd": BASE_OFF, "source_commits": hook_commits, "add_only": True},
        "engines": [
            {"name": "queue", "path": "spec/Queue.tla spec/MCQueue.tla spec/QueueTrace.tla harness/cmd/stsh/queue.go lib/check_queue.py",
             "serves_properties": ["C10", "C12", "C11"], "kind_free_text": "TLC design check + behaviour replay + TLC trace validation"},
            {"name": "payload", "path": "spec/Payload.tla spec/MCPayload.tla spec/PayloadTrace.tla harness/cmd/stsh/payload.go lib/check_payload.py",
             "serves_properties": ["C11"], "kind_free_text": "TLC design check + behaviour replay + TLC trace validation"},
        ],
        "checks": checks,
        "not_applicable": na,
        "notes": "Every check: TLC on the TLA+ design, TLC-generated behaviours replayed on the real code built from /repo with -tags verif, recorded traces validated by TLC. Exit 2 = inconclusive (never a verdict). known_findings.json lists confirmed defects (open or fixed).",
    }
    json.dump(m, open(os.path.join(VERIF, "MANIFEST.json"), "w"), indent=1)

if __name__ == "__main__":
    main()
