#!/usr/bin/env python3
"""Regenerates MANIFEST.json from the table below (keeps it valid at all times)."""
import json, os, subprocess
VERIF = os.path.dirname(os.path.dirname(os.path.abspath(__file__)))
BASE_OFF = ("cd /repo && GOFLAGS=-mod=mod go test -json -vet=off -count=1 -timeout 25m ./...")

CLAIMED = {
 "C10": dict(engine="queue", design="3 C10",
   text="TLC checks the four C10 formulas (next file in configured order, predecessor = a handled file of the group / the most recently completed one, no self reference, acyclic while names are unique, resumed files keep theirs) in every state of Queue.tla, a statement-by-statement transcription of queue.Tagged, for every Push/Pop history within the bounds; every enumerated history is replayed on the real queue and compared result by result, and TLC evaluates the same formulas on the observed results of diverging, sampled and random longer histories. Model checking of the design plus exhaustive conformance replay is the right level for a mutex-protected sequential component whose property quantifies over operation histories.",
   note="Trusted: TLC, the Json module, the harness's rendering of abstract times (hours before/after now) and of name ranks; bounds: quick 8 operations / 3 pushes, thorough 9 / 4, 9 batch kinds, 4 orders; random histories up to 40 operations over <= 4 groups.",
   technique="TLA+ transcription of queue.Tagged model-checked with TLC; TLC-enumerated histories replayed on the real queue; TLC trace validation of observed Pop results"),
 "C12": dict(engine="queue", design="3 C12",
   text="TLC checks strict priority, no idle Pop while a group is ready, last-file-delay skipping and the rotation formula (at least once between two chunks of a group, exactly once while that group stayed ready) in every state of Queue.tla for all histories over 4 groups with 2 priorities and delay on/off; every enumerated history is replayed on the real queue.Tagged; TLC evaluates the formulas on observed results.",
   note="Trusted as C10. 'ready' is computed from the observed history (pushed minus emitted bytes), a young single pending file counts as withheld.",
   technique="TLA+ transcription of queue.Tagged model-checked with TLC; replay of enumerated histories; TLC trace validation"),
}
CLAIMED["C11"] = dict(engine="payload", design="3 C11",
   text="Two layers, both decided by TLC on transcriptions and re-decided on the real code: chunks (Queue.tla, formula C11_Chunk over every Push/Pop history) and payload parts (Payload.tla: Bin.Add/IsFull/Split and the startBin loop body; every chunk sequence of one or two files within the size bounds, payload sizes with slack 0/1/2, every flush position and every Split(n)). Every TLC behaviour is replayed on the real queue.Tagged / payload.Bin / client.binnable and compared event by event; TLC evaluates the tiling formulas on the observed payload headers, also for random runs of the real queue feeding the real bin.",
   note="Trusted: as C10, plus the harness's repetition of the private startBin loop body around the real Bin (the sender-level harness observes the real Broker's payloads). Bounds: quick file sizes 1..13 x chunk sizes {whole,1,3,10} x payload sizes {9,10,11,20}, one flush; thorough sizes 1..26, payload sizes {3,9,10,11,20}, two flushes.",
   technique="TLA+ transcriptions of queue allocation and payload.Bin model-checked with TLC; replay of every enumerated behaviour on the real code; TLC trace validation of observed chunks and payload headers")

STAGE_NOTE = ("Trusted: TLC, the Json module, the hook package (one-line observation points at the durable steps of stage.Stage / fileutil), the harness's projection "
  "(directory listing -> block tags by byte comparison, companion JSON, log lines, VerifSnapshot). Bounds: design 2 names x <=2 versions x 2 blocks, 3 (quick) / 4 (thorough) requests, "
  "2 connections, 1 crash / 1 corruption / 2 cleanings / 1 cache expiry, protocol-following sender; code: each API call run to quiescence (interleavings inside the receiver are decided on the design only). "
  "Model-found corner cases that the sequential harness cannot schedule (S19) or that are recorded as open findings (S9 S15 S20) are exempted by named KF_ switches; see known_findings.json and DESIGN.md section 5.")
def stage_entry(design, text):
    return dict(engine="stage", design=design, text=text, note=STAGE_NOTE,
      technique="TLA+ model of stage.Stage model-checked with TLC; TLC-generated command sequences and hook-point crash enumeration executed on the real Stage; TLC trace validation of observed durable states")
CLAIMED["C01"] = stage_entry("3 C01", "TLC checks on Stage.tla, in every reachable state and for every interleaving within the bounds, that the final directory only ever holds a complete announced version whose hash is in the receive log (also between the two renames of the move) and that a positive status is given only for content held validated; the same formulas plus 'a complete body that does not match its hash is reported failed' are evaluated by TLC on the states observed from the real Stage for TLC-generated command sequences of any (also non-protocol) sender: corrupted parts, overwritten staged bytes, wrong announced hash, version changes, restarts.")
CLAIMED["C04"] = stage_entry("3 C04", "TLC checks on Stage.tla that a file is logged only after its announced predecessor (first log index order) for chains, a predecessor cycle (with the cycle breaker) and restarts; on the real Stage the same formula and 'a validated file whose predecessor is not delivered is held and answered waiting; waiting is said only for a held file' are evaluated over TLC-generated sequences in four universes (chain, cycle, same leaf name in two directories with rename, names that are substrings of one another).")
CLAIMED["C05"] = stage_entry("3 C05", "TLC checks on Stage.tla that every (name, hash) arrives in the final directory at most once and is logged at most 1 + crashes times, over all retransmission interleavings of a protocol-following sender, crashes, cleaning and cache expiry; on the real Stage the arrivals are counted at the hook after the move and the formulas, 'queries change nothing durable' and 'a retransmission of a delivered version is acknowledged and has no effect' are evaluated by TLC on the observed states.")
CLAIMED["C06"] = stage_entry("3 C06", "TLC explores a crash after every durable action of Stage.tla (one action per file-system mutation) followed by the steps of Recover, and checks no stranded move, no loss of anything confirmed, C01 and C05 across the crash; on the real code every occurrence of every hook point of every command of the selected scenarios is a crash point (image copied while the goroutine is parked, new Stage + Recover on the image, sender asks before re-sending) and TLC evaluates the same formulas and the post-recovery condition of every companion on the observed states.", ) | dict(category="model_checking")
CLAIMED["C09"] = stage_entry("3 C09", "TLC checks on Stage.tla (two connections, write before lock) that a companion only claims blocks that were written into a staged body and that a body is treated as complete only if every block was written; on the real Stage the formulas are evaluated on the observed .part/.full/.wait bytes against the companion, Scan listings and Received answers.")
CLAIMED["C20"] = stage_entry("3 C20", "TLC checks on Stage.tla that cleaning removes a partial or companion only of a (name, hash) that was delivered or logged, with AgePart / CleanStray / CleanLoop / ExpireCache enabled between the requests of a running transfer; on the real Stage CleanNow is run after TLC-generated histories (aged partials via chtimes) and TLC evaluates the formula on what the clean hook reported plus 'cleaning touches nothing but day-old partials and their companions'.")
CLAIMED["C18"] = dict(engine="xferlog", design="3 C18",
   text="TLC checks completeness and exactness of look-ups and field fidelity of Parse on a character-level model of the record format, the day walk and the line matching for every history of <=2 (quick) / 3 (thorough) records over names that are substrings of one another and every window; sampled enumerated histories and random ones are executed on the real log.FileIO and TLC evaluates the formulas on the observed answers.",
   note="Trusted: TLC, Json module, the harness's placement of earlier days as day files in the record format. Names containing ':' are the open finding S2 (format).",
   technique="TLA+ character-level model of the log format model-checked with TLC; replay of enumerated histories on log.FileIO; TLC trace validation")
CLAIMED["C19"] = dict(engine="conf", design="3 C19",
   text="TLC enumerates every abstract configuration document (sources x option kinds x absent / explicit zero-or-false / two values; tag lists) and checks inheritance and parse -> JSON -> parse round trip on a transcription of propagate(), CopyStruct and the marshalers; every document is rendered (YAML and JSON, concrete options of every kind), parsed by the real sts.NewConf, re-encoded and parsed again, and TLC evaluates the formulas on the observed effective values. The clause about which files a running sender sends with which tag is decided with the sender-level checks.",
   note="Trusted: TLC, Json module, the harness's rendering of abstract values into concrete YAML/JSON and back. Open findings ZERO (explicit zero indistinguishable from absent) and S12 (include-hidden) are exempted by switches and reported as KNOWN-FINDING when reproduced.",
   technique="TLA+ transcription of configuration inheritance enumerated by TLC; every document replayed on sts.NewConf; TLC trace validation")

NOT_YET = {}
ALL = ["C%02d" % i for i in range(1, 21)]

def main():
    hooks = subprocess.run(["git", "-C", "/repo", "log", "--format=%H %s"], capture_output=True, text=True).stdout.splitlines()
    hook_commits = [l.split()[0] for l in hooks if l.split(" ", 1)[1].startswith("verif:")]
    checks = []
    for pid in ALL:
        if pid not in CLAIMED:
            continue
        c = CLAIMED[pid]
        checks.append({
            "property_id": pid,
            "quick_cmd": "bin/check %s --tier quick" % pid,
            "thorough_cmd": "bin/check %s --tier thorough" % pid,
            "evidence_file": "/verif/evidence/%s.json" % pid,
            "replay_cmd_template": "bin/check %s --replay {path}" % pid,
            "engine": c["engine"],
            "level_claimed": {"category": c.get("category", "model_checking"), "text": c["text"], "design_ref": "DESIGN.md section " + c["design"]},
            "level_note": c["note"],
            "technique": c["technique"],
        })
    na = [{"property_id": p, "reason": NOT_YET.get(p, "check not built yet in this round; planned with the same technique (DESIGN.md section 3)")}
          for p in ALL if p not in CLAIMED]
    m = {
        "version": 1,
        "setup_cmd": "bin/setup",
        "hooks": {"guard": "verif", "enable": "go build -tags verif (the harness module /verif/harness replaces github.com/arm-doe/sts with /repo)",
                  "baseline_off_cmd": BASE_OFF, "source_commits": hook_commits, "add_only": True},
        "engines": [
            {"name": "queue", "path": "spec/Queue.tla spec/MCQueue.tla spec/QueueTrace.tla harness/cmd/stsh/queue.go lib/check_queue.py",
             "serves_properties": ["C10", "C12", "C11"], "kind_free_text": "TLC design check + behaviour replay + TLC trace validation"},
            {"name": "stage", "path": "spec/Stage.tla spec/StageTrace.tla spec/MCStage.tla harness/cmd/stsh/stage.go lib/check_stage.py",
             "serves_properties": ["C01", "C04", "C05", "C06", "C09", "C20"], "kind_free_text": "TLC design check + TLC-generated scenarios + crash enumeration at hooks + TLC trace validation"},
            {"name": "xferlog", "path": "spec/XferLog.tla spec/MCXferLog.tla spec/XferLogTrace.tla harness/cmd/stsh/xferlog.go lib/check_xferlog.py",
             "serves_properties": ["C18"], "kind_free_text": "TLC design check + behaviour replay + TLC trace validation"},
            {"name": "conf", "path": "spec/Conf.tla spec/MCConf.tla spec/ConfTrace.tla harness/cmd/stsh/conf.go lib/check_conf.py",
             "serves_properties": ["C19"], "kind_free_text": "TLC enumeration + replay + TLC trace validation"},
            {"name": "payload", "path": "spec/Payload.tla spec/MCPayload.tla spec/PayloadTrace.tla harness/cmd/stsh/payload.go lib/check_payload.py",
             "serves_properties": ["C11"], "kind_free_text": "TLC design check + behaviour replay + TLC trace validation"},
        ],
        "checks": checks,
        "not_applicable": na,
        "notes": "Every check: TLC on the TLA+ design, TLC-generated behaviours replayed on the real code built from /repo with -tags verif, recorded traces validated by TLC. Exit 2 = inconclusive (never a verdict). known_findings.json lists confirmed defects (open or fixed).",
    }
    json.dump(m, open(os.path.join(VERIF, "MANIFEST.json"), "w"), indent=1)

if __name__ == "__main__":
    main()
