#!/usr/bin/env python3
"""Regenerates MANIFEST.json from the table below (keeps it valid at all times)."""
import json, os, subprocess
VERIF = os.path.dirname(os.path.dirname(os.path.abspath(__file__)))
BASE_OFF = ("cd /repo && GOFLAGS=-mod=mod go test -json -vet=off -count=1 -timeout 25m ./...")

CLAIMED = {
 "C10": dict(engine="queue", design="3 C10",
   text="TLC checks the four C10 formulas (next file in configured order, predecessor = a handled file of the group / the most recently completed one, no self reference, acyclic while names are unique, resumed files keep theirs) in every state of Queue.tla, a statement-by-statement transcription of queue.Tagged, for every Push/Pop history within the bounds; every enumerated history is replayed on the real queue and compared result by result, and TLC evaluates the same formulas on the observed results of diverging, sampled and random longer histories. Model checking of the design plus exhaustive conformance replay is the right level for a mutex-protected sequential component whose property quantifies over operation histories.",
   note="Trusted: TLC, the Json module, the harness's rendering of abstract times (hours before/after now) and of name ranks; bounds: quick 8 operations / 3 pushes, thorough 9 / 4, 9 batch kinds, 4 orders; random histories up to 40 operations over <= 4 groups.",
   technique="TLA+ transcription of queue.Tagged model-checked with TLC; TLC-enumerated histories replayed on the real queue; TLC trace validation of observed Pop results"),
 "C12": dict(engine="queue", design="3 C12",
   text="TLC checks strict priority, no idle Pop while a group is ready, last-file-delay skipping and the rotation formula (at least once between two chunks of a group, exactly once while that group stayed ready) in every state of Queue.tla for all histories over 4 groups with 2 priorities and delay on/off, with time passing as an event (no file is younger than the last-file delay any more) and a second family with two priority classes of two groups each; every enumerated history is replayed on the real queue.Tagged; TLC evaluates the formulas on observed results.",
   note="Trusted as C10. 'ready' is computed from the observed history (pushed minus emitted bytes), a young single pending file counts as withheld.",
   technique="TLA+ transcription of queue.Tagged model-checked with TLC; replay of enumerated histories; TLC trace validation"),
}
CLAIMED["C11"] = dict(engine="payload", design="3 C11",
   text="Two layers, both decided by TLC on transcriptions and re-decided on the real code: chunks (Queue.tla, formula C11_Chunk over every Push/Pop history) and payload parts (Payload.tla: Bin.Add/IsFull/Split and the startBin loop body; every chunk sequence of one or two files within the size bounds, payload sizes with slack 0/1/2, every flush position and every Split(n)). Every TLC behaviour is replayed on the real queue.Tagged / payload.Bin / client.binnable and compared event by event; TLC evaluates the tiling formulas on the observed payload headers, also for random runs of the real queue feeding the real bin.",
   note="Trusted: as C10, plus the harness's repetition of the private startBin loop body around the real Bin (the sender-level harness observes the real Broker's payloads). Bounds: quick file sizes 1..13 x chunk sizes {whole,1,3,10} x payload sizes {9,10,11,20}, one flush; thorough sizes 1..26, payload sizes {3,9,10,11,20}, two flushes.",
   technique="TLA+ transcriptions of queue allocation and payload.Bin model-checked with TLC; replay of every enumerated behaviour on the real code; TLC trace validation of observed chunks and payload headers")

STAGE_NOTE = ("Trusted: TLC, the Json module, the hook package (one-line observation points at the durable steps of stage.Stage / fileutil), the harness's projection "
  "(directory listing -> block tags by byte comparison, companion JSON, log lines, VerifSnapshot). Bounds: design 2-3 names x <=2 versions x 2 blocks, 2 (quick) / 4 (thorough) requests, "
  "2 connections, 1 crash / 1 corruption / 2 cleanings / 1 cache expiry, protocol-following sender; code: all single commands, focused exhaustive command sequences of depth 3-5 over the commands the property is about, "
  "a seeded sample of -simulate walk prefixes (3000 scenarios per universe in the quick tier), each API call run to quiescence (interleavings inside the receiver are decided on the design only); crash points = the hook points (C06 also a second crash inside the following Recover). "
  "Model-found corner cases that the sequential harness cannot schedule (S19) or that are recorded as open findings (S9 S15 S20) are exempted by named KF_ switches; see known_findings.json and DESIGN.md section 5.")
def stage_entry(design, text):
    return dict(engine="stage", design=design, text=text, note=STAGE_NOTE,
      technique="TLA+ model of stage.Stage model-checked with TLC; TLC-generated command sequences and hook-point crash enumeration executed on the real Stage; TLC trace validation of observed durable states")
CLAIMED["C01"] = stage_entry("3 C01", "TLC checks on Stage.tla, in every reachable state and for every interleaving within the bounds, that the final directory only ever holds a complete announced version whose hash is in the receive log (also between the two renames of the move) and that a positive status is given only for content held validated; the same formulas plus 'a complete body that does not match its hash is reported failed' are evaluated by TLC on the states observed from the real Stage for TLC-generated command sequences of any (also non-protocol) sender: corrupted parts, overwritten staged bytes, wrong announced hash, version changes, restarts. In addition (L2) every schedule of the family 'resize' (a source file rewritten smaller or larger at every interface call of the real Broker, 1-2 threads, deletion on/off) runs as a whole transfer against the real receiver and TLC checks on every recorded receiver state that what is in the final directory is byte for byte a version the source had and one the receive log names.")
CLAIMED["C04"] = stage_entry("3 C04", "TLC checks on Stage.tla that a file is logged only after its announced predecessor (first log index order) for chains, a predecessor cycle (with the cycle breaker) and restarts; on the real Stage the same formula and 'a validated file whose predecessor is not delivered is held and answered waiting; waiting is said only for a held file' are evaluated over TLC-generated sequences in four universes (chain, cycle, same leaf name in two directories with rename, names that are substrings of one another).")
CLAIMED["C05"] = stage_entry("3 C05", "TLC checks on Stage.tla that every (name, hash) arrives in the final directory at most once and is logged at most 1 + crashes times, over all retransmission interleavings of a protocol-following sender, crashes, cleaning and cache expiry; on the real Stage the arrivals are counted at the hook after the move and the formulas, 'queries change nothing durable', 'a retransmission of a delivered version is acknowledged and has no effect' and 'a part of a delivered, logged version is known to the receiver, also when the delivery is known only from the log' are evaluated by TLC on the observed states (universes U1 and U4, focused exhaustive sequences of receive / query / restart / cache-expiry commands).")
CLAIMED["C06"] = stage_entry("3 C06", "TLC explores a crash after every durable action of Stage.tla (one action per file-system mutation) followed by the steps of Recover, and checks no stranded move, no loss of anything confirmed, C01 and C05 across the crash; on the real code every occurrence of every hook point of every command of the selected scenarios is a crash point (image copied while the goroutine is parked, new Stage + Recover on the image, sender asks before re-sending) and TLC evaluates the same formulas and the post-recovery condition of every companion on the observed states.", ) | dict(category="model_checking")
CLAIMED["C09"] = stage_entry("3 C09", "TLC checks on Stage.tla (two connections, write before lock) that a companion only claims blocks that were written into a staged body and that a body is treated as complete only if every block was written; on the real Stage the formulas are evaluated on the observed .part/.full/.wait bytes against the companion, Scan listings, Received answers and the count answered to two-part 'how many of these did you get' queries (only leading parts on record may be counted).")
CLAIMED["C20"] = stage_entry("3 C20", "TLC checks on Stage.tla that cleaning removes a partial or companion only of a (name, hash) that was delivered or logged, with AgePart / CleanStray / CleanLoop / ExpireCache enabled between the requests of a running transfer; on the real Stage CleanNow is run after TLC-generated histories (aged partials via chtimes) and TLC evaluates the formula on what the clean hook reported plus 'cleaning touches nothing but day-old partials and their companions'.")
CLAIMED["C18"] = dict(engine="xferlog", design="3 C18",
   text="TLC checks completeness and exactness of look-ups and field fidelity of Parse on a character-level model of the record format, the day walk and the line matching for every history of <=2 (quick) / 3 (thorough) records over names that are substrings of one another and every window; sampled enumerated histories and random ones are executed on the real log.FileIO and TLC evaluates the formulas on the observed answers.",
   note="Trusted: TLC, Json module, the harness's placement of earlier days as day files in the record format. Names containing ':' are the open finding S2 (format).",
   technique="TLA+ character-level model of the log format model-checked with TLC; replay of enumerated histories on log.FileIO; TLC trace validation")
CLAIMED["C19"] = dict(engine="conf", design="3 C19",
   text="TLC enumerates every abstract configuration document (sources x option kinds x absent / explicit zero-or-false / two values; tag lists) and checks inheritance and parse -> JSON -> parse round trip on a transcription of propagate(), CopyStruct and the marshalers; every document is rendered (YAML and JSON, concrete options of every kind), parsed by the real sts.NewConf, re-encoded and parsed again, and TLC evaluates the formulas on the observed effective values. The clause about which files a running sender sends with which tag is decided with the sender-level checks.",
   note="Trusted: TLC, Json module, the harness's rendering of abstract values into concrete YAML/JSON and back. Open findings ZERO (explicit zero indistinguishable from absent) and S12 (include-hidden) are exempted by switches and reported as KNOWN-FINDING when reproduced.",
   technique="TLA+ transcription of configuration inheritance enumerated by TLC; every document replayed on sts.NewConf; TLC trace validation")

SENDER_NOTE = ("Trusted: TLC, the Json module, the harness's decorators around the Broker's component interfaces (real cache.JSON, store.Local, queue.Tagged, "
  "http.Client, log.FileIO behind recording wrappers; faults injected in the wrapped Transmitter / Validator / recovery functions and in a wrapping gatekeeper on the receiving side), "
  "its projection of the receiver's disk (final, held .wait, log records, staged files) and of the source directory. The Broker runs with real goroutines: every schedule of "
  "SenderEnv.tla is one observed interleaving per round; environment actions are placed at interface-call indices (or at the k-th call of one kind), not between arbitrary instructions. "
  "Verdicts that depend on how long the harness waited (termination, delivery at the end) count only if they reproduce when the schedule runs alone. Open finding S23 is exempted by a switch.")
def sender_entry(text, technique):
    return dict(engine="sender", design="3 sender", category="fault_enumeration", text=text, note=SENDER_NOTE, technique=technique)
ST = "TLA+ environment model (SenderEnv.tla) enumerated by TLC; every schedule executed on the real client.Broker against a real receiver; TLC trace validation of the recorded execution against the formulas of SenderTrace.tla"
CLAIMED["C02"] = sender_entry("TLC enumerates file changes (rewrite, touch, delete; same and different size) at every interface call of the Broker and at the k-th call of every kind, with deletion on/off, poll delay shorter and longer than the scan delay, sender crashes at every call, lost / failed poll answers; each schedule runs on the real Broker + real receiver and TLC checks on every prefix of the recorded execution that a file is marked done only for the cached version the receiver holds validated after a positive poll, that a deletion concerns exactly the content the source has at that instant, and that the receiver answers positively only for what it holds.", ST)
CLAIMED["C03"] = sender_entry("Liveness as bounded delivery: for every schedule of the fault, crash and change families (every failure kind at every position of the first requests, double failures, failing recovery requests, crash at every call, file changes), after the last fault the run continues for a quiet period, one clean interval of the receiver elapses, the sender is stopped gracefully, and TLC checks on the recorded end state that the sender terminated and every eligible unchanged file is in the final directory in its latest version.", ST)
CLAIMED["C07"] = sender_entry("A sender crash is placed at every interface call (1..40) of runs with 2-3 files, 1-2 threads, deletion on/off, with and without a 206 failure in flight, and twice in a row; in addition every partial-reception state of a 64-byte file in 8 chunks (all 255 non-empty subsets, each chunk recorded by a request of its own, so with gaps and unmerged) is put on the receiver through the real client when the crashed sender restarts; the restarted real Broker recovers against the real receiver; TLC checks that after the restart no byte range the receiver listed as held and no file it held completely is transmitted again (unless a poll said so), nothing is released unconfirmed and everything is delivered.", ST)
CLAIMED["C08"] = sender_entry("Every failure kind (refused before processing, answer lost after processing, 206 after j parts) at every position of the first three requests, combined with failing recovery requests and pairs of failures, 1-2 sender threads: TLC checks on the recorded execution that the receiver's count equals the leading parts it has on record, that the first follow-up request carries exactly the remainder, and that a file is logged as sent only when the ranges the receiver recorded add up to its size.", ST)
CLAIMED["C16"] = dict(engine="sender", design="7.5", category="model_checking",
   text="TLC explores every interleaving of Sender.tla, a PlusCal model of Broker.Start (one process per goroutine group, channels with capacity, sendCh / recvCh with their stop predicates, WaitGroups, downstream-ward closes), with a stop of either kind at any moment, bounded request failures, negative verdicts and vanishing files, and checks that no channel is closed before its writers left, that a graceful stop drains, that the tracker is never parked for good and (thorough) that every stop terminates; with the switches KF_S17 / KF_S27 (the code as found) TLC must find the two repaired hangs. The model is bound to the code by the hooks at every goroutine exit, channel close and return (the recorded order must satisfy ShutdownOrder.tla on every run) and by the schedule families stops / stops2 / plain / faulty of SenderEnv.tla: a stop placed at every interface call of the real Broker, one-shot runs, validation failures by corruption, with P_C16_Terminates / Recorded / Drain / ExitOrder evaluated by TLC on the recorded execution.",
   note=SENDER_NOTE + " Sender.tla abstracts a file to one part and a payload to one file; quick: one file, capacity 1, one sender thread.",
   technique="PlusCal/TLA+ model of the Broker's shutdown choreography model-checked with TLC; hook-recorded exit/close order and TLC-enumerated stop schedules on the real Broker validated by TLC trace checking")
CLAIMED["C17"] = sender_entry("TLC enumerates the eligibility matrix (hidden file / hidden directory / lock file / empty / too young / ignored / not included / symbolic link x include-hidden x minimum age x ignore and include patterns x deletion x one-shot) and file changes at every call; TLC checks on the recorded execution that only eligible names are found, transmitted or deleted, the first scan finds every eligible file, a confirmed unchanged version is never transmitted again, and what is delivered is one whole version the source had.", ST)
CLAIMED["C13"] = dict(engine="framing", design="3 framing",
   text="TLC explores the encoder / decoder state machines of Framing.tla (Encoder.Read, NewDecoder, PartDecoder.Read over tagged bytes) for every payload of 1-3 parts, every sequence of reader buffer sizes on both sides and every truncation point, and checks round trip, refusal and no-foreign-byte; every (payload, cut, end-of-stream style) is concretised and run through the real payload.Bin encoder and payload.NewDecoder in memory (both path-separator conventions, rename targets, the stream's end signalled alone or together with the last bytes), intact payloads through http.Client.Transmit -> http.Server.routeData -> a recording gatekeeper at gzip 0 and a seeded level, and payloads cut inside their body as well-formed short requests (Content-Length, and gzip + chunked); TLC evaluates the formulas on the observed parts and descriptors.",
   note="Trusted: TLC, Json module, the harness's concretisation (names with unicode / spaces / sub-directories, both separator conventions, nanosecond times). Wrong X-STS-MetaLen announcements and a cut inside the JSON header are outside the model (the request fails as a whole); transport-level aborts surface as transport errors before the part reader sees an end of stream.",
   technique="TLA+ byte-level model of the payload wire format model-checked with TLC; every enumerated case replayed on the real encoder/decoder and over real HTTP; TLC trace validation")
GATE_NOTE = ("Trusted: TLC, Json module, the harness's rendering of abstract requests and its before/after listing of the sandbox (the messages log is excluded). The receiver is the real sts binary (built with -tags verif for the pause point only). "
  "A server is restarted after every request that touched the disk so that asynchronous effects are attributed to the right request; besides the before/after listing an inotify watch on every directory of the sandbox reports files that were created, written or renamed while the request was served and are gone afterwards (transient escapes). Open finding S14 (Recover started as a goroutine) is exempted by a switch for requests sent before recovery was scheduled.")
CLAIMED["C14"] = dict(engine="gate", design="3 gate",
   text="TLC enumerates every abstract request of Gate.tla (6 routes x source values x key values x names / rename targets / static paths built from '..', absolute, empty and dot segments x configured source and key lists x recovery in progress) and checks confinement and 'refused means no effect' on a model of handleValidate, the source -> directory mapping and the routes; a seeded sample (quick) or all (thorough) are rendered (header or query string, either separator, percent-encoded traversal) and sent to the real sts binary in a sandbox whose roots are a proper sub-directory; TLC evaluates the formulas on the observed status and touched locations.",
   note=GATE_NOTE, technique="TLA+ model of the request gate model-checked with TLC; enumerated requests replayed on the real sts binary; TLC trace validation of observed status and file-system effects")
CLAIMED["C15"] = dict(engine="gate", design="3 gate",
   text="Same model and binding as C14, formulas: a request whose source or key is not allowed is answered 403 (400 without or with a malformed source) and touches nothing; while the start-up recovery of a source (also one whose name contains a separator) is parked at a pause point inside the real Recover(), its requests are answered 503 and touch nothing.",
   note=GATE_NOTE, technique="TLA+ model of the request gate model-checked with TLC; enumerated requests replayed on the real sts binary with recovery parked at a hook; TLC trace validation")

NOT_YET = {}
ALL = ["C%02d" % i for i in range(1, 21)]

def main():
    hooks = subprocess.run(["git", "-C", "/repo", "log", "--format=%H %s"], capture_output=True, text=True).stdout.splitlines()
    hook_commits = [l.split()[0] for l in hooks if l.split(" ", 1)[1].startswith("verif:")]
    checks = []
    for pid in ALL:
        if pid not in CLAIMED:
            continue
        c = CLAIMED[pid]
        checks.append({
            "property_id": pid,
            "quick_cmd": "bin/check %s --tier quick" % pid,
            "thorough_cmd": "bin/check %s --tier thorough" % pid,
            "evidence_file": "/verif/evidence/%s.json" % pid,
            "replay_cmd_template": "bin/check %s --replay {path}" % pid,
            "engine": c["engine"],
            "level_claimed": {"category": c.get("category", "model_checking"), "text": c["text"], "design_ref": "DESIGN.md section " + c["design"]},
            "level_note": c["note"],
            "technique": c["technique"],
        })
    na = [{"property_id": p, "reason": NOT_YET.get(p, "check not built yet in this round; planned with the same technique (DESIGN.md section 3)")}
          for p in ALL if p not in CLAIMED]
    m = {
        "version": 1,
        "setup_cmd": "bin/setup",
        "hooks": {"guard": "verif", "enable": "go build -tags verif (the harness module /verif/harness replaces github.com/arm-doe/sts with /repo)",
                  "baseline_off_cmd": BASE_OFF, "source_commits": hook_commits, "add_only": True},
        "engines": [
            {"name": "queue", "path": "spec/Queue.tla spec/MCQueue.tla spec/QueueTrace.tla harness/cmd/stsh/queue.go lib/check_queue.py",
             "serves_properties": ["C10", "C12", "C11"], "kind_free_text": "TLC design check + behaviour replay + TLC trace validation"},
            {"name": "stage", "path": "spec/Stage.tla spec/StageTrace.tla spec/MCStage.tla harness/cmd/stsh/stage.go lib/check_stage.py",
             "serves_properties": ["C01", "C04", "C05", "C06", "C09", "C20"], "kind_free_text": "TLC design check + TLC-generated scenarios + crash enumeration at hooks + TLC trace validation"},
            {"name": "xferlog", "path": "spec/XferLog.tla spec/MCXferLog.tla spec/XferLogTrace.tla harness/cmd/stsh/xferlog.go lib/check_xferlog.py",
             "serves_properties": ["C18"], "kind_free_text": "TLC design check + behaviour replay + TLC trace validation"},
            {"name": "conf", "path": "spec/Conf.tla spec/MCConf.tla spec/ConfTrace.tla harness/cmd/stsh/conf.go lib/check_conf.py",
             "serves_properties": ["C19"], "kind_free_text": "TLC enumeration + replay + TLC trace validation"},
            {"name": "sender", "path": "spec/SenderEnv.tla spec/SenderTrace.tla harness/cmd/stsh/sender.go lib/check_sender.py",
             "serves_properties": ["C02", "C03", "C07", "C08", "C16", "C17"], "kind_free_text": "TLC-enumerated schedules executed on the real Broker + receiver; TLC trace validation"},
            {"name": "framing", "path": "spec/Framing.tla spec/MCFraming.tla spec/FramingTrace.tla harness/cmd/stsh/framing.go lib/check_framing.py",
             "serves_properties": ["C13"], "kind_free_text": "TLC design check + replay + TLC trace validation"},
            {"name": "gate", "path": "spec/Gate.tla spec/MCGate.tla spec/GateTrace.tla harness/cmd/stsh/gate.go lib/check_gate.py",
             "serves_properties": ["C14", "C15"], "kind_free_text": "TLC design check + replay on the real binary + TLC trace validation"},
            {"name": "payload", "path": "spec/Payload.tla spec/MCPayload.tla spec/PayloadTrace.tla harness/cmd/stsh/payload.go lib/check_payload.py",
             "serves_properties": ["C11"], "kind_free_text": "TLC design check + behaviour replay + TLC trace validation"},
        ],
        "checks": checks,
        "not_applicable": na,
        "notes": "Every check: TLC on the TLA+ design, TLC-generated behaviours replayed on the real code built from /repo with -tags verif, recorded traces validated by TLC. Exit 2 = inconclusive (never a verdict). known_findings.json lists confirmed defects (open or fixed).",
    }
    json.dump(m, open(os.path.join(VERIF, "MANIFEST.json"), "w"), indent=1)

if __name__ == "__main__":
    main()
