----------------------------- MODULE MCXferLog -----------------------------
EXTENDS XferLog, Json
Names4 == { <<"p">>, <<"p", "q">>, <<"q", "p">>, <<"p", ":", "q">> }
NamesColon == { <<"p">>, <<"q">>, <<"p", ":", "q">> }
Names3 == { <<"p">>, <<"p", "q">>, <<"q", "p">> }
Hashes2 == { <<"h", "1">>, <<"h", "2">> }
Rens2 == { <<>>, <<"z">> }
CONSTANT Emit
EmitScenario ==
  (Emit /\ hist # <<>> /\ hist[Len(hist)].op \in {"search", "parse"}) =>
     PrintT("SCN " \o ToJson([kind |-> kind, hist |-> hist]))
=============================================================================
