---------------------------- MODULE PayloadTrace ----------------------------
(* Trace validation for payload.Bin driven as client.Broker.startBin drives  *)
(* it.  Events: "reset" (payload size), "chunk" (a chunk handed to the       *)
(* binner), "ship" (a payload sent on: its parts and byte count), "split"    *)
(* (Bin.Split(n) of the payload shipped last), "end" (input closed, nothing  *)
(* left).  Loop iterations that ship nothing are not logged; RunToShip       *)
(* composes them.  hist = what the specification predicts, obs = what the    *)
(* real code did; the C11 formulas are evaluated on obs.                     *)
EXTENDS Payload, Json

CONSTANT TraceFile
Trace == ndJsonDeserialize(TraceFile)

VARIABLES obs, l
tvars == <<cap, inq, cur, bin, nflush, hist, obs, l>>

TraceInit ==
  /\ l = 1 /\ cap = 0 /\ inq = <<>> /\ cur = None /\ bin = None /\ nflush = 0
  /\ hist = <<>> /\ obs = <<>>

E == Trace[l]
Both(e) == hist' = Append(hist, e) /\ obs' = Append(obs, e)

TraceReset ==
  /\ E.op = "reset"
  /\ cap' = E.cap /\ cur' = None /\ bin' = None /\ hist' = <<>> /\ obs' = <<>>
  /\ UNCHANGED <<inq, nflush>>

TraceChunk ==
  /\ E.op = "chunk"
  /\ LET r == RunToShip(cur, bin)
     IN /\ cur' = [c |-> E.c, allocd |-> 0]
        /\ bin' = r.bin
  /\ Both([op |-> "chunk", c |-> E.c])
  /\ UNCHANGED <<cap, inq, nflush>>

TraceShip ==
  /\ E.op = "ship"
  /\ LET r == RunToShip(cur, bin)
         pred == IF r.ship # None THEN r.ship
                 ELSE IF r.bin # None THEN r.bin ELSE [parts |-> <<>>, bytes |-> 0]
     IN /\ cur' = r.cur
        /\ bin' = IF r.ship # None THEN r.bin ELSE None
        /\ hist' = Append(hist, Ship(pred))
  /\ obs' = Append(obs, [op |-> "ship", parts |-> E.parts, bytes |-> E.bytes])
  /\ UNCHANGED <<cap, inq, nflush>>

TraceSplit ==
  /\ E.op = "split"
  /\ LET r == Split(E.of, E.n)
     IN hist' = Append(hist, [op |-> "split", n |-> E.n, of |-> E.of, head |-> r[1], tail |-> r[2]])
  /\ obs' = Append(obs, [op |-> "split", n |-> E.n, of |-> E.of, head |-> E.head, tail |-> E.tail])
  /\ UNCHANGED <<cap, inq, cur, bin, nflush>>

TraceEnd ==
  /\ E.op = "end"
  /\ LET r == RunToShip(cur, bin)
     IN /\ cur' = r.cur /\ bin' = r.bin
        \* a payload still to be shipped shows up as a predicted ship
        /\ hist' = IF r.ship # None \/ (r.bin # None /\ r.bin.bytes > 0)
                   THEN Append(hist, [op |-> "unshipped"])
                   ELSE Append(hist, [op |-> "end"])
  /\ obs' = Append(obs, [op |-> "end"])
  /\ UNCHANGED <<cap, inq, nflush>>

TraceNext ==
  /\ l <= Len(Trace)
  /\ l' = l + 1
  /\ (TraceReset \/ TraceChunk \/ TraceShip \/ TraceSplit \/ TraceEnd)

TraceSpec == TraceInit /\ [][TraceNext]_tvars
TraceAccepted == TLCGet("stats").diameter = Len(Trace) + 1

Obs_C11_PayloadLimit == P_C11_PayloadLimit(obs)
Obs_C11_Contiguous == P_C11_Contiguous(obs)
Obs_C11_TileEnd == (KF_P1 /\ Fluff(cap) = 0) \/ P_C11_TileEnd(obs)
Obs_C11_SplitConserves == P_C11_SplitConserves(obs)
Conform == hist = obs
=============================================================================
