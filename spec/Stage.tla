------------------------------- MODULE Stage -------------------------------
(***************************************************************************)
(* The receiver of ARM-DOE/sts: stage.Stage (stage/local.go), its          *)
(* companion files (stage/companion.go), the receive log as the stage uses *)
(* it (log/local.go) and fileutil.Move / WriteJSON, at the grain of the    *)
(* code: one action per critical section or durable file-system mutation.  *)
(*                                                                         *)
(* Files have NB blocks.  A block holds a tag: <<n, v>> (block of version  *)
(* v of file n), "X" (corrupted) or "Z" (pre-sized, never written).  The   *)
(* MD5 of a content equals the hash announced for version v of n iff every *)
(* block is <<n, v>> (MD5 idealised as injective).                         *)
(*                                                                         *)
(* State is held in four records: d (durable: survives Crash), m (memory:  *)
(* lost by Crash), b (budgets that bound the environment), h (history:     *)
(* what an outside observer saw).  The property formulas P_* speak about   *)
(* d and h only.                                                           *)
(***************************************************************************)
EXTENDS Integers, Sequences, FiniteSets, TLC

CONSTANTS Names,        \* file names
          Vers,         \* Vers[n]   : versions of n that exist at the sender
          Prev,         \* Prev[n]   : predecessor the sender announces for n ("" = none)
          Ren,          \* Ren[n]    : rename target announced for n ("" = none)
          SubOf,        \* SubOf[n]  : names whose log line contains n as a substring (n included)
          NB,           \* blocks per file
          MaxThr, MaxReq, MaxCrash, MaxCorrupt, MaxClean, MaxExpire, MaxOverwrite, MaxQuery,
          KF_S1,        \* known finding S1: log look-ups match substrings / first line only
          KF_S3,        \* known finding S3: cleanStrays never finds the companion
          KF_S7,        \* finding S7: a crash between the two renames of fileutil.Move strands
                        \* <final>/<target>.lck (TRUE: the code as found; FALSE: Recover completes the move)
          KF_S15,       \* finding S15: a part of another version rewrites the companion of a file that
                        \* is validated but not yet delivered; after a crash Recover delivers the old
                        \* bytes under the new companion's hash
          KF_S20,       \* finding S20: Recover() validates and delivers a complete staged copy without
                        \* asking whether that version is already logged as delivered
          KF_S9,        \* finding S9: the cache rebuilt from the log keeps the FIRST record of a name; a
                        \* retransmission of a later delivered version is then not recognised
          KF_S21,       \* finding S21: cleanStrays treats a file whose validation failed like a delivered
                        \* one (stateFailed > stateReceived) and deletes the partial of its retransmission
          KF_S19,       \* finding S19: a companion survives the creation of a fresh .part while its
                        \* file is received / validated (it then describes a body that is elsewhere)
          ExpireAnytime, \* TRUE: the cache may age out at any quiet moment (scenario generation)
          Hostile       \* TRUE: any request at any time; FALSE: requests a sender following the
                        \* protocol can have in flight together (same version, disjoint ranges)

Blocks == 1..NB
Nil == <<>>                                  \* "no such file"
Z == <<"Z", 0>>
X == <<"X", 0>>
Good(n, v) == [k \in Blocks |-> <<n, v>>]
Fresh == [k \in Blocks |-> Z]
NoCmp == [v |-> 0, prev |-> "", ren |-> "", have |-> {}]
Unknown == [st |-> "unknown", v |-> 0, prev |-> "", ren |-> ""]
Target(n, ren) == IF ren = "" THEN n ELSE ren
Targets == (Names \cup { Ren[n] : n \in Names }) \ {""}
NV == { nv \in Names \X (1..3) : nv[2] \in Vers[nv[1]] }
NoJob == [n |-> "", pc |-> ""]
NoAns == [kind |-> "", n |-> "", v |-> 0, res |-> ""]

VARIABLES d, m, b, h
vars == <<d, m, b, h>>

(* d.part, d.full, d.waitf : [Names -> content or Nil]  the staged body under its extensions *)
(* d.cmp                   : [Names -> companion]                                             *)
(* d.old                   : [Names -> BOOLEAN]         the .part is older than a day         *)
(* d.finalLck, d.final     : [Targets -> content or Nil]                                     *)
(* d.rlog                  : Seq([n, ren, v])           the receive log                       *)
(* m.cache   : [Names -> [st, v, prev, ren]]     m.built : the log was loaded into the cache *)
(* m.wait    : set of <<predecessor, waiting>>   m.timers : names with an armed retry timer  *)
(* m.plock   : [Names -> BOOLEAN] a path lock object exists ("in progress")                  *)
(* m.held    : [Names -> "" | "recv" | "val" | "fin"]  who holds the path lock               *)
(* m.thr     : receive calls in flight           m.vq, m.fq : validate / finalize queues     *)
(* m.val, m.fin : the validator / finalizer at work: [n, pc]                                 *)
(* m.ready   : Ready()                           m.rec : "" | "begin" | "walked" | "cached"  *)
(* h.arrive  : [NV -> count] arrivals in the final directory                                *)
(* h.ans     : the last answer given             h.passed : <<n, v>> ever answered positively *)
(* h.cleaned : what cleaning removed             h.treated : bodies treated as complete       *)
(* h.ack     : what the sender was told is held  h.seen : <<n, v>> ever announced            *)

Init ==
  /\ d = [part |-> [n \in Names |-> Nil], full |-> [n \in Names |-> Nil], waitf |-> [n \in Names |-> Nil],
          cmp |-> [n \in Names |-> NoCmp], old |-> [n \in Names |-> FALSE],
          finalLck |-> [t \in Targets |-> Nil], final |-> [t \in Targets |-> Nil], rlog |-> <<>>]
  /\ m = [cache |-> [n \in Names |-> Unknown], built |-> FALSE, wait |-> {}, timers |-> {},
          plock |-> [n \in Names |-> FALSE], held |-> [n \in Names |-> ""], thr |-> {},
          vq |-> {}, fq |-> {}, val |-> NoJob, fin |-> NoJob, ready |-> TRUE, rec |-> ""]
  /\ b = [req |-> 0, crash |-> 0, corrupt |-> 0, clean |-> 0, expire |-> 0, overwrite |-> 0, query |-> 0]
  /\ h = [arrive |-> [nv \in NV |-> 0], ans |-> NoAns, passed |-> {}, cleaned |-> {}, treated |-> {},
          ack |-> [n \in Names |-> [v |-> 0, have |-> {}]], stale |-> {},
          seen |-> {}, s15 |-> {}, taint |-> {}, redo |-> {}, shadow |-> {}]

St(n) == m.cache[n].st
Free(n) == m.held[n] = ""
MD5ok(data, n, v) == data = Good(n, v)
Stale(n) == KF_S19 /\ n \in h.stale
Tainted(n) == KF_S15 /\ n \in h.taint
Redone(n) == KF_S20 /\ n \in h.redo

-----------------------------------------------------------------------------
(* The receive log as the stage reads it.                                  *)
Logged(n, v) == \E i \in 1..Len(d.rlog) : d.rlog[i].n = n /\ d.rlog[i].v = v
LoggedAny(n) == \E i \in 1..Len(d.rlog) : d.rlog[i].n = n
\* log.search: the FIRST line that contains the name (as a substring); the hash
\* is looked for within that line only (v = 0: no hash asked)
WasReceived(n, v) ==
  IF KF_S1
  THEN LET hits == { i \in 1..Len(d.rlog) : d.rlog[i].n \in SubOf[n] }
       IN hits # {} /\ LET i == CHOOSE i \in hits : \A j \in hits : i <= j
                       IN v = 0 \/ d.rlog[i].v = v
  ELSE \E i \in 1..Len(d.rlog) : d.rlog[i].n = n /\ (v = 0 \/ d.rlog[i].v = v)

\* buildCache: every logged name that is not in the cache becomes "logged" with
\* the hash of its FIRST record (Parse walks forward and skips cached paths)
FirstRec(n) ==
  d.rlog[CHOOSE i \in 1..Len(d.rlog) : d.rlog[i].n = n /\ \A j \in 1..(i - 1) : d.rlog[j].n # n]
Built(c) ==
  [n \in Names |->
     IF c[n].st = "unknown" /\ LoggedAny(n)
     THEN [st |-> "logged", v |-> FirstRec(n).v, prev |-> "", ren |-> FirstRec(n).ren]
     ELSE c[n]]
CacheB == IF m.built THEN m.cache ELSE Built(m.cache)     \* the cache after buildCache

-----------------------------------------------------------------------------
(* A request carries one part: [n, v (announced hash), lo..hi (blocks), dv  *)
(* (version of the bytes actually carried, 0 = corrupted)].                 *)
(* Prepare = initStageFile under the path lock.                             *)
Prepare(n, v, lo, hi, dv) ==
  /\ m.ready /\ m.rec = ""
  /\ Cardinality(m.thr) < MaxThr /\ b.req < MaxReq
  /\ Free(n)
  /\ Hostile \/ /\ \A t \in m.thr : t.n = n => (t.v = v /\ (t.hi < lo \/ hi < t.lo))
                \* ... and does not repeat what was acknowledged, unless told to
                /\ h.ack[n].v = v => (lo..hi) \cap h.ack[n].have = {}
                \* ... and a file only moves forward through its versions
                /\ \A w \in 1..3 : <<n, w>> \in h.seen => w <= v
  /\ dv # v => b.corrupt < MaxCorrupt
  /\ b' = [b EXCEPT !.req = @ + 1, !.corrupt = IF dv # v THEN @ + 1 ELSE @]
  /\ d' = IF d.part[n] # Nil THEN d
          ELSE [d EXCEPT !.cmp[n] = IF @ # NoCmp /\ St(n) \in {"unknown", "failed"} THEN NoCmp ELSE @,
                         !.part[n] = Fresh, !.old[n] = FALSE]
  /\ m' = [m EXCEPT !.plock[n] = TRUE,
                    !.thr = @ \cup {[n |-> n, v |-> v, lo |-> lo, hi |-> hi, dv |-> dv,
                                     id |-> b.req + 1, pc |-> "prep"]}]
  /\ h' = [h EXCEPT !.stale = IF d.part[n] = Nil /\ d'.cmp[n] # NoCmp THEN @ \cup {n} ELSE @,
                    !.seen = @ \cup {<<n, v>>}]

\* Receive, first half: the bytes are written at their offset, without the lock
RecvWrite(t) ==
  /\ t.pc = "prep"
  /\ IF d.part[t.n] = Nil
     THEN /\ m' = [m EXCEPT !.thr = @ \ {t}]      \* open fails: the request is answered with an error
          /\ h' = [h EXCEPT !.ans = [kind |-> "recv", n |-> t.n, v |-> t.v, res |-> "error"]]
          /\ UNCHANGED d
     ELSE /\ d' = [d EXCEPT !.part[t.n] =
                     [k \in Blocks |-> IF k \in t.lo..t.hi
                                       THEN (IF t.dv = 0 THEN X ELSE <<t.n, t.dv>>)
                                       ELSE @[k]],
                            !.old[t.n] = FALSE]
          /\ m' = [m EXCEPT !.thr = (@ \ {t}) \cup {[t EXCEPT !.pc = "written"]}]
          /\ UNCHANGED h
  /\ UNCHANGED b

\* the connection dies after Prepare and before the bytes of this part arrive
RecvAbort(t) ==
  /\ t.pc = "prep"
  /\ m' = [m EXCEPT !.thr = @ \ {t}]
  /\ UNCHANGED <<d, b, h>>

\* Receive, second half: under the path lock the companion is read, updated
\* and replaced (newLocalCompanion, addCompanionPart, writeCompanion)
RecvRecord(t) ==
  /\ t.pc = "written" /\ Free(t.n)
  /\ LET o == d.cmp[t.n]
         c == IF o # NoCmp /\ o.v = t.v
              THEN [o EXCEPT !.prev = Prev[t.n], !.have = @ \cup (t.lo..t.hi)]
              ELSE [v |-> t.v, prev |-> Prev[t.n], ren |-> Ren[t.n], have |-> t.lo..t.hi]
     IN d' = [d EXCEPT !.cmp[t.n] = c]
  /\ m' = [m EXCEPT !.held[t.n] = "recv", !.plock[t.n] = TRUE,
                    !.thr = (@ \ {t}) \cup {[t EXCEPT !.pc = "recorded"]}]
  /\ h' = [h EXCEPT !.stale = IF d.cmp[t.n] = NoCmp \/ d.cmp[t.n].v # t.v THEN @ \ {t.n} ELSE @,
                    !.s15 = IF d.cmp[t.n] # NoCmp /\ d.cmp[t.n].v # t.v /\ (d.waitf[t.n] # Nil \/ d.full[t.n] # Nil)
                            THEN @ \cup {t.n} ELSE @]
  /\ UNCHANGED b

\* ... and, still under the lock, a complete file is handed to validation -
\* unless it is already known with this hash (a duplicate)
RecvComplete(t) ==
  /\ t.pc = "recorded"
  /\ LET c == d.cmp[t.n]
         done == c.have = Blocks
         e == m.cache[t.n]
         dup == e.st # "unknown" /\ e.st # "failed" /\ e.v = t.v
         ack == [kind |-> "recv", n |-> t.n, v |-> t.v, res |-> "ok"]
         acked == [h.ack EXCEPT ![t.n] = IF @.v = t.v THEN [@ EXCEPT !.have = @ \cup (t.lo..t.hi)]
                                         ELSE [v |-> t.v, have |-> t.lo..t.hi]]
     IN IF ~done
        THEN /\ m' = [m EXCEPT !.held[t.n] = "", !.thr = @ \ {t}]
             /\ UNCHANGED d /\ h' = [h EXCEPT !.ans = ack, !.ack = acked]
        ELSE IF dup
        THEN /\ d' = [d EXCEPT !.part[t.n] = Nil,
                               !.cmp[t.n] = IF e.st \in {"finalized", "logged"} THEN NoCmp ELSE @]
             /\ m' = [m EXCEPT !.held[t.n] = "", !.thr = @ \ {t},
                               !.plock[t.n] = IF e.st \in {"finalized", "logged"} THEN FALSE ELSE @]
             /\ h' = [h EXCEPT !.ans = ack, !.ack = acked]
        ELSE IF d.part[t.n] = Nil
        THEN \* the rename fails: the file is cached as failed
             /\ m' = [m EXCEPT !.held[t.n] = "", !.thr = @ \ {t},
                               !.cache[t.n] = [st |-> "failed", v |-> t.v, prev |-> Prev[t.n], ren |-> Ren[t.n]]]
             /\ UNCHANGED d
             /\ h' = [h EXCEPT !.ans = [kind |-> "recv", n |-> t.n, v |-> t.v, res |-> "error"]]
        ELSE /\ d' = [d EXCEPT !.full[t.n] = d.part[t.n], !.part[t.n] = Nil]
             /\ m' = [m EXCEPT !.held[t.n] = "", !.thr = @ \ {t},
                               !.cache[t.n] = [st |-> "received", v |-> t.v, prev |-> Prev[t.n], ren |-> Ren[t.n]],
                               !.vq = @ \cup {t.n}]
             /\ h' = [h EXCEPT !.ans = ack, !.ack = acked, !.treated = @ \cup {[n |-> t.n, stale |-> Stale(t.n),
                                                   holes |-> { k \in Blocks : d.part[t.n][k] = Z }]}]
  /\ UNCHANGED b

-----------------------------------------------------------------------------
(* process(): validation, under the path lock                               *)
ValStart(n) ==
  /\ n \in m.vq /\ m.val = NoJob /\ Free(n)
  /\ IF St(n) # "received"
     THEN m' = [m EXCEPT !.vq = @ \ {n}] /\ UNCHANGED d
     ELSE IF d.full[n] = Nil
     THEN \* MD5 cannot be computed: companion and body are removed, failed
          /\ d' = [d EXCEPT !.cmp[n] = NoCmp]
          /\ m' = [m EXCEPT !.vq = @ \ {n}, !.cache[n].st = "failed", !.plock[n] = TRUE]
     ELSE IF ~MD5ok(d.full[n], n, m.cache[n].v)
     THEN /\ m' = [m EXCEPT !.vq = @ \ {n}, !.cache[n].st = "failed", !.plock[n] = TRUE]
          /\ UNCHANGED d
     ELSE /\ m' = [m EXCEPT !.vq = @ \ {n}, !.held[n] = "val", !.plock[n] = TRUE,
                            !.val = [n |-> n, pc |-> "hashed"]]
          /\ UNCHANGED d
  /\ UNCHANGED <<b, h>>

ValWait ==          \* rename .full -> .wait
  /\ m.val.pc = "hashed"
  /\ LET n == m.val.n
     IN /\ d' = [d EXCEPT !.waitf[n] = d.full[n], !.full[n] = Nil]
        /\ m' = [m EXCEPT !.val.pc = "wait"]
  /\ UNCHANGED <<b, h>>

ValMark ==          \* toCache(validated), queue for finalize, unlock
  /\ m.val.pc = "wait"
  /\ LET n == m.val.n
     IN m' = [m EXCEPT !.cache[n].st = "validated", !.fq = @ \cup {n}, !.held[n] = "", !.val = NoJob]
  /\ UNCHANGED <<d, b, h>>

-----------------------------------------------------------------------------
(* finalizeHandler / isFileReady / finalize / putFileAway                   *)
PrevDecision(n) ==      \* "go" | "park" | "parktimed"
  LET p == m.cache[n].prev
  IN IF p = "" \/ p = n THEN "go"
     ELSE IF p \notin Names THEN (IF WasReceived(p, 0) THEN "go" ELSE "parktimed")
     ELSE CASE St(p) = "unknown" ->
                 IF m.plock[p] THEN "park"
                 ELSE IF WasReceived(p, 0) THEN "go" ELSE "parktimed"
            [] St(p) \in {"received", "failed", "validated"} -> "park"
            [] OTHER -> "go"

FinTake(n) ==
  /\ n \in m.fq /\ m.fin = NoJob
  /\ IF St(n) # "validated"
     THEN m' = [m EXCEPT !.fq = @ \ {n}]
     ELSE LET dec == PrevDecision(n)
          IN IF dec = "go"
             THEN /\ Free(n)
                  /\ m' = [m EXCEPT !.fq = @ \ {n}, !.held[n] = "fin", !.plock[n] = TRUE,
                                    !.timers = @ \ {n}, !.fin = [n |-> n, pc |-> "log"]]
             ELSE m' = [m EXCEPT !.fq = @ \ {n},
                                 !.wait = @ \cup {<<m.cache[n].prev, n>>},
                                 !.timers = IF dec = "parktimed" THEN @ \cup {n} ELSE @ \ {n}]
  /\ UNCHANGED <<d, b, h>>

PutLog ==           \* the receive log is appended before the move
  /\ m.fin.pc = "log"
  /\ LET n == m.fin.n
         c == m.cache[n]
     IN /\ d' = [d EXCEPT !.rlog = Append(@, [n |-> n, ren |-> c.ren, v |-> c.v])]
        /\ m' = [m EXCEPT !.fin.pc = "lck"]
  /\ UNCHANGED <<b, h>>

PutMoveLck ==       \* fileutil.Move, first rename: .wait -> <final>/<target>.lck
  /\ m.fin.pc = "lck"
  /\ LET n == m.fin.n
         t == Target(n, m.cache[n].ren)
     IN IF d.waitf[n] = Nil
        THEN \* the body is gone: finalize gives up (error), lock released
             /\ m' = [m EXCEPT !.fin = NoJob, !.held[n] = "", !.plock[n] = FALSE]
             /\ UNCHANGED d
        ELSE /\ d' = [d EXCEPT !.finalLck[t] = d.waitf[n], !.waitf[n] = Nil]
             /\ m' = [m EXCEPT !.fin.pc = "mv"]
  /\ UNCHANGED <<b, h>>

PutMoveFinal ==     \* second rename: the file appears under its name
  /\ m.fin.pc = "mv"
  /\ LET n == m.fin.n
         t == Target(n, m.cache[n].ren)
         v == m.cache[n].v
     IN /\ d' = [d EXCEPT !.final[t] = d.finalLck[t], !.finalLck[t] = Nil]
        /\ h' = [h EXCEPT !.arrive[<<n, v>>] = @ + 1]
        /\ m' = [m EXCEPT !.fin.pc = "mark"]
  /\ UNCHANGED b

PutMark ==          \* toCache(finalized)
  /\ m.fin.pc = "mark"
  /\ m' = [m EXCEPT !.cache[m.fin.n].st = "finalized", !.fin.pc = "rm"]
  /\ UNCHANGED <<d, b, h>>

PutRmCmp ==         \* companion removed; unlock; waiters released
  /\ m.fin.pc = "rm"
  /\ LET n == m.fin.n
         rel == { w \in m.wait : w[1] = n }
     IN /\ d' = [d EXCEPT !.cmp[n] = NoCmp]
        /\ m' = [m EXCEPT !.fin = NoJob, !.held[n] = "", !.plock[n] = FALSE,
                          !.wait = @ \ rel, !.fq = @ \cup { w[2] : w \in rel }]
  /\ UNCHANGED <<b, h>>

TimerFire(n) ==
  /\ n \in m.timers
  /\ m' = [m EXCEPT !.timers = @ \ {n}, !.fq = @ \cup {n}]
  /\ UNCHANGED <<d, b, h>>

-----------------------------------------------------------------------------
(* Queries: GetFileStatus, Received (one part), Scan                        *)
StatusOf(c, n) ==
  CASE c[n].st = "failed" -> "failed"
    [] c[n].st = "validated" -> IF \E w \in m.wait : w[2] = n THEN "waiting" ELSE "passed"
    [] c[n].st \in {"logged", "finalized"} -> "passed"
    [] OTHER -> "none"

AnsStatus(n) ==
  /\ m.ready /\ m.rec = "" /\ b.query < MaxQuery
  /\ LET c == CacheB
         r == StatusOf(c, n)
     IN /\ m' = [m EXCEPT !.cache = c, !.built = TRUE]
        /\ h' = [h EXCEPT !.ans = [kind |-> "status", n |-> n, v |-> c[n].v, res |-> r],
                          !.passed = IF r \in {"passed", "waiting"} THEN @ \cup {<<n, c[n].v>>} ELSE @,
                          !.ack[n] = IF r \in {"failed", "none"} THEN [v |-> 0, have |-> {}] ELSE @]
  /\ b' = [b EXCEPT !.query = @ + 1]
  /\ UNCHANGED d

\* partReceived for a part lo..hi of version v of n, given the (built) cache c
RcvRes(c, n, v, lo, hi) ==
  LET e == c[n]
      k == d.cmp[n]
  IN IF e.st = "unknown"
     THEN k # NoCmp /\ k.ren = Ren[n] /\ k.v = v /\ k.prev = Prev[n] /\ (lo..hi) \subseteq k.have
     ELSE e.st # "failed" /\ e.v = v /\ e.ren = Ren[n]
RcvUnlock(c, n, res) ==
  IF c[n].st = "unknown" THEN d.cmp[n] = NoCmp ELSE res /\ c[n].st \in {"finalized", "logged"}
AnsReceived(n, v, lo, hi) ==
  /\ m.ready /\ m.rec = "" /\ b.query < MaxQuery /\ Free(n)
  /\ LET c == CacheB
         res == RcvRes(c, n, v, lo, hi)
     IN /\ m' = [m EXCEPT !.cache = c, !.built = TRUE,
                          !.plock[n] = IF RcvUnlock(c, n, res) THEN FALSE ELSE TRUE]
        /\ h' = [h EXCEPT !.ans = [kind |-> "received", n |-> n, v |-> v,
                                   res |-> IF res THEN "yes" ELSE "no"]]
  /\ b' = [b EXCEPT !.query = @ + 1]
  /\ UNCHANGED d

\* Stage.Received for a list of two parts ("how many of these did you get"): the
\* number of LEADING parts on record; the second part is looked at only if the first is
AnsReceived2(r1, r2) ==
  /\ m.ready /\ m.rec = "" /\ b.query < MaxQuery /\ Free(r1.n) /\ Free(r2.n)
  /\ LET c == CacheB
         res1 == RcvRes(c, r1.n, r1.v, r1.lo, r1.hi)
         res2 == RcvRes(c, r2.n, r2.v, r2.lo, r2.hi)
         cnt == IF ~res1 THEN 0 ELSE IF ~res2 THEN 1 ELSE 2
         pl1 == [m.plock EXCEPT ![r1.n] = IF RcvUnlock(c, r1.n, res1) THEN FALSE ELSE TRUE]
         pl2 == IF res1 THEN [pl1 EXCEPT ![r2.n] = IF RcvUnlock(c, r2.n, res2) THEN FALSE ELSE TRUE] ELSE pl1
     IN /\ m' = [m EXCEPT !.cache = c, !.built = TRUE, !.plock = pl2]
        \* (the count itself is judged on the observed answer, Obs_C09_ReceivedN; no design formula reads it)
        /\ cnt \in 0..2
  /\ b' = [b EXCEPT !.query = @ + 1]
  /\ UNCHANGED <<d, h>>

-----------------------------------------------------------------------------
(* Cleaning: cleanStrays for one old .part, cleanWaiting                     *)
AgePart(n) ==       \* environment: time passes, the .part becomes a day old
  /\ d.part[n] # Nil /\ ~d.old[n] /\ b.clean < MaxClean
  /\ m.thr = {} /\ m.val = NoJob /\ m.fin = NoJob /\ m.vq = {} /\ m.fq = {}   \* a day passes: nothing is in flight
  /\ d' = [d EXCEPT !.old[n] = TRUE]
  /\ UNCHANGED <<m, b, h>>

CleanStray(n) ==
  /\ d.part[n] # Nil /\ d.old[n] /\ b.clean < MaxClean
  /\ LET k == IF KF_S3 THEN NoCmp ELSE d.cmp[n]        \* the companion cleanStrays sees
         st == St(n)
         beyond == st \in {"validated", "finalized", "logged"} \cup (IF KF_S21 THEN {"failed"} ELSE {})
         del == IF beyond THEN (k = NoCmp \/ k.v = m.cache[n].v)
                ELSE WasReceived(n, k.v)
         delCmp == IF beyond THEN (d.cmp[n] # NoCmp /\ st = "logged" /\ (KF_S3 \/ del))
                   ELSE (del /\ d.cmp[n] # NoCmp)
     IN /\ d' = [d EXCEPT !.part[n] = IF del THEN Nil ELSE @,
                          !.cmp[n] = IF delCmp THEN NoCmp ELSE @]
        /\ h' = [h EXCEPT !.cleaned = @ \cup
                   (IF del THEN {[n |-> n, v |-> d.cmp[n].v, what |-> "part"]} ELSE {})
                   \cup (IF delCmp THEN {[n |-> n, v |-> d.cmp[n].v, what |-> "cmp"]} ELSE {})]
  /\ b' = [b EXCEPT !.clean = @ + 1]
  /\ UNCHANGED m

\* cleanWaiting: a validated file whose predecessor waits (transitively) on it
RECURSIVE WaitersOf(_, _, _)
WaitersOf(W, from, k) ==     \* names waiting (transitively) on the names in `from`
  IF k = 0 THEN from
  ELSE WaitersOf(W, from \cup { w[2] : w \in { w \in W : w[1] \in from } }, k - 1)
CleanLoop(n) ==
  /\ St(n) = "validated" /\ m.cache[n].prev # "" /\ b.clean < MaxClean
  /\ LET p == m.cache[n].prev
     IN /\ \E w \in m.wait : w[2] = p                          \* the predecessor is waiting
        /\ p \in WaitersOf(m.wait, { w[2] : w \in { w \in m.wait : w[1] = p } }, Cardinality(Names))
        /\ LET rel == { w \in m.wait : w[1] = p }
               go == { w[2] : w \in { w \in rel : St(w[2]) = "validated" } }
           IN m' = [m EXCEPT !.wait = @ \ rel,
                             !.timers = @ \ go,
                             !.cache = [x \in Names |-> IF x \in go THEN [@[x] EXCEPT !.prev = ""] ELSE @[x]],
                             !.fq = @ \cup go]
  /\ b' = [b EXCEPT !.clean = @ + 1]
  /\ UNCHANGED <<d, h>>

\* cleanCache with everything old: delivered entries leave the memory
ExpireCache ==
  /\ b.expire < MaxExpire
  \* (a sender following the protocol asks before it re-sends a day later; in the design runs the day
  \* passes when the requests are used up, the scenario generator lets it pass at any quiet moment)
  /\ Hostile \/ ExpireAnytime \/ b.req = MaxReq
  /\ m.thr = {} /\ m.val = NoJob /\ m.fin = NoJob /\ m.vq = {} /\ m.fq = {}   \* a day passes: nothing is in flight
  /\ m' = [m EXCEPT !.cache = [n \in Names |->
                IF @[n].st \in {"finalized", "logged"} /\ @[n].prev = "" THEN Unknown ELSE @[n]],
                    !.built = FALSE]
  /\ b' = [b EXCEPT !.expire = @ + 1]
  /\ h' = [h EXCEPT !.shadow = @ \cup { n \in Names : \E i, j \in 1..Len(d.rlog) :
                                           d.rlog[i].n = n /\ d.rlog[j].n = n /\ d.rlog[i].v # d.rlog[j].v },
                    \* within that day the sender has polled every delivered file to a verdict
                    !.ack = [n \in Names |->
                               LET vs == { v \in 1..3 : <<n, v>> \in NV /\ h.arrive[<<n, v>>] > 0 }
                               IN IF vs # {} /\ d.part[n] = Nil /\ d.full[n] = Nil /\ d.waitf[n] = Nil
                                  THEN [v |-> CHOOSE v \in vs : \A w \in vs : w <= v, have |-> Blocks]
                                  ELSE @[n]]]
  /\ UNCHANGED d

\* environment: a block of the staged body is overwritten
Overwrite(n, k) ==
  /\ b.overwrite < MaxOverwrite
  /\ m.val.n # n          \* (not in the window between hashing the body and renaming it)
  /\ \/ d.part[n] # Nil /\ d' = [d EXCEPT !.part[n][k] = X]
     \/ d.full[n] # Nil /\ d' = [d EXCEPT !.full[n][k] = X]
  /\ b' = [b EXCEPT !.overwrite = @ + 1]
  /\ UNCHANGED <<m, h>>

-----------------------------------------------------------------------------
(* Crash and Recover()                                                       *)
Crash ==
  /\ b.crash < MaxCrash
  /\ b' = [b EXCEPT !.crash = @ + 1]
  /\ m' = [cache |-> [n \in Names |-> Unknown], built |-> FALSE, wait |-> {}, timers |-> {},
           plock |-> [n \in Names |-> FALSE], held |-> [n \in Names |-> ""], thr |-> {},
           vq |-> {}, fq |-> {}, val |-> NoJob, fin |-> NoJob, ready |-> FALSE, rec |-> "begin"]
  /\ h' = [h EXCEPT !.ack = [n \in Names |-> [v |-> d.cmp[n].v, have |-> d.cmp[n].have]],
                    !.taint = @ \cup { n \in h.s15 : d.waitf[n] # Nil },
                    !.shadow = @ \cup { n \in Names : \E i, j \in 1..Len(d.rlog) :
                                            d.rlog[i].n = n /\ d.rlog[j].n = n /\ d.rlog[i].v # d.rlog[j].v },
                    !.redo = @ \cup { n \in Names : d.cmp[n] # NoCmp /\ Logged(n, d.cmp[n].v) /\
                                        (d.full[n] # Nil \/ d.waitf[n] # Nil \/
                                         (d.part[n] # Nil /\ d.cmp[n].have = Blocks)) }]
  /\ UNCHANGED d

HasCmp(n) == d.cmp[n] # NoCmp
RecToFin == { n \in Names : HasCmp(n) /\ d.waitf[n] # Nil }
RecToVal == { n \in Names : HasCmp(n) /\ d.waitf[n] = Nil /\
                (d.full[n] # Nil \/ (d.part[n] # Nil /\ d.cmp[n].have = Blocks)) }
RecOrphan == { n \in Names : HasCmp(n) /\ d.waitf[n] = Nil /\ d.full[n] = Nil /\ d.part[n] = Nil }

RecWalk ==          \* the walk: complete .part -> .full, orphan companions removed
  /\ m.rec = "begin"
  /\ LET \* (fix of S7) a companion whose body sits between the two renames of the
         \* move: the move is completed
         mv == IF KF_S7 THEN {} ELSE { n \in Names : HasCmp(n) /\ d.finalLck[Target(n, d.cmp[n].ren)] # Nil }
         tgt(n) == Target(n, d.cmp[n].ren)
     IN /\ d' = [d EXCEPT
              !.full = [n \in Names |-> IF n \in RecToVal /\ d.full[n] = Nil THEN d.part[n] ELSE @[n]],
              !.part = [n \in Names |-> IF n \in RecToVal /\ d.full[n] = Nil THEN Nil ELSE @[n]],
              !.cmp = [n \in Names |-> IF n \in RecOrphan THEN NoCmp ELSE @[n]],
              !.final = [t \in Targets |-> IF \E n \in mv : tgt(n) = t THEN d.finalLck[t] ELSE @[t]],
              !.finalLck = [t \in Targets |-> IF \E n \in mv : tgt(n) = t THEN Nil ELSE @[t]]]
        /\ h' = [h EXCEPT !.arrive = [nv \in NV |-> IF nv[1] \in mv /\ d.finalLck[tgt(nv[1])] = Good(nv[1], nv[2])
                                                  THEN @[nv] + 1 ELSE @[nv]]]
  /\ m' = [m EXCEPT !.rec = "walked"]
  /\ UNCHANGED b

RecCache ==         \* buildCache from the log, then the files found are cached and dispatched
  /\ m.rec = "walked"
  /\ LET c0 == Built(m.cache)
         ent(n, st) == [st |-> st, v |-> d.cmp[n].v, prev |-> d.cmp[n].prev, ren |-> d.cmp[n].ren]
         toVal == { n \in Names : HasCmp(n) /\ d.waitf[n] = Nil /\ d.full[n] # Nil }
     IN m' = [m EXCEPT !.cache = [n \in Names |-> IF n \in RecToFin THEN ent(n, "validated")
                                                  ELSE IF n \in toVal THEN ent(n, "received") ELSE c0[n]],
                       !.built = TRUE, !.fq = RecToFin, !.vq = toVal,
                       !.plock = [n \in Names |-> n \in RecToFin \cup toVal],
                       !.rec = "cached"]
  /\ UNCHANGED <<d, b, h>>

RecEnd ==           \* Recover returns once its validations are done
  /\ m.rec = "cached" /\ m.vq = {} /\ m.val = NoJob
  /\ m' = [m EXCEPT !.rec = "", !.ready = TRUE]
  /\ UNCHANGED <<d, b, h>>

-----------------------------------------------------------------------------
Requests == { r \in [n : Names, v : 1..3, lo : Blocks, hi : Blocks, dv : 0..3] :
                r.v \in Vers[r.n] /\ r.lo <= r.hi /\ (r.dv = 0 \/ r.dv \in Vers[r.n]) }

Next ==
  \/ \E r \in Requests : Prepare(r.n, r.v, r.lo, r.hi, r.dv)
  \/ \E t \in m.thr : RecvWrite(t) \/ RecvRecord(t) \/ RecvComplete(t) \/ RecvAbort(t)
  \/ \E n \in Names : ValStart(n) \/ FinTake(n) \/ TimerFire(n)
  \/ ValWait \/ ValMark \/ PutLog \/ PutMoveLck \/ PutMoveFinal \/ PutMark \/ PutRmCmp
  \/ \E n \in Names : AnsStatus(n)
  \/ \E r \in Requests : r.dv = r.v /\ AnsReceived(r.n, r.v, r.lo, r.hi)
  \/ \E r1, r2 \in Requests : r1.dv = r1.v /\ r2.dv = r2.v /\ r1 # r2 /\ AnsReceived2(r1, r2)
  \/ \E n \in Names : AgePart(n) \/ CleanStray(n) \/ CleanLoop(n)
  \/ ExpireCache
  \/ \E n \in Names, k \in Blocks : Overwrite(n, k)
  \/ Crash \/ RecWalk \/ RecCache \/ RecEnd

Spec == Init /\ [][Next]_vars

-----------------------------------------------------------------------------
(* Property formulas.  F_*(D, H) speak about a durable state D (fields as   *)
(* d) and a history H (fields as h, plus crash, clean : counts and idle :     *)
(* the receiver is quiescent and not recovering).  P_* apply them to this     *)
(* specification's state; StageTrace.tla applies the same operators to the   *)
(* states and history OBSERVED from the real code.                            *)
HView == [arrive |-> h.arrive, ans |-> h.ans, passed |-> h.passed, cleaned |-> h.cleaned,
          treated |-> h.treated, stale |-> h.stale, taint |-> h.taint, redo |-> h.redo,
          shadow |-> h.shadow, seen |-> h.seen, crash |-> b.crash, clean |-> b.clean,
          idle |-> (m.ready /\ m.rec = "" /\ m.thr = {} /\ m.vq = {} /\ m.fq = {}
                    /\ m.val = NoJob /\ m.fin = NoJob)]

LoggedD(D, n, v) == \E i \in 1..Len(D.rlog) : D.rlog[i].n = n /\ D.rlog[i].v = v
LoggedAnyD(D, n) == \E i \in 1..Len(D.rlog) : D.rlog[i].n = n
FirstLogIdxD(D, n) == CHOOSE i \in 1..Len(D.rlog) : D.rlog[i].n = n /\ \A j \in 1..(i - 1) : D.rlog[j].n # n
LogCountD(D, n, v) == Cardinality({ i \in 1..Len(D.rlog) : D.rlog[i].n = n /\ D.rlog[i].v = v })
StaleH(H, n) == KF_S19 /\ n \in H.stale
TaintedH(H, n) == KF_S15 /\ n \in H.taint
RedoneH(H, n) == KF_S20 /\ n \in H.redo
ShadowH(H, n) == KF_S9 /\ n \in H.shadow
HeldD(D, H, n, v) ==
  \/ D.waitf[n] = Good(n, v) \/ D.finalLck[Target(n, Ren[n])] = Good(n, v)
  \/ H.arrive[<<n, v>>] > 0 \/ LoggedD(D, n, v)

\* C01: what is in the final directory is a complete announced version whose
\* hash is in the receive log; also while it is being moved
F_C01_Final(D, H) ==
  \A n \in Names :
    LET t == Target(n, Ren[n])
    IN (D.final[t] # Nil /\ ~TaintedH(H, n) /\ (\A n2 \in Names : Target(n2, Ren[n2]) = t => n2 = n)) =>
         \E v \in Vers[n] : D.final[t] = Good(n, v) /\ LoggedD(D, n, v)
F_C01_Lck(D, H) ==
  \A n \in Names : LET t == Target(n, Ren[n]) IN
     D.finalLck[t] # Nil => \E n2 \in Names, v \in 1..3 : v \in Vers[n2] /\ D.finalLck[t] = Good(n2, v)
\* a positive answer is given only for content that is held validated
F_C01_NoFalsePass(D, H) ==
  (H.ans.kind = "status" /\ H.ans.res \in {"passed", "waiting"} /\ ~TaintedH(H, H.ans.n)
   /\ <<H.ans.n, H.ans.v>> \in NV)
     => HeldD(D, H, H.ans.n, H.ans.v)

\* C05: each version arrives in the final directory at most once; the log
\* repeats a record only across a crash
F_C05_Once(D, H) ==
  \A nv \in NV : StaleH(H, nv[1]) \/ RedoneH(H, nv[1]) \/ ShadowH(H, nv[1]) \/ H.arrive[nv] <= 1
F_C05_LogOnce(D, H) ==
  \A nv \in NV : StaleH(H, nv[1]) \/ RedoneH(H, nv[1]) \/ ShadowH(H, nv[1])
                   \/ LogCountD(D, nv[1], nv[2]) <= 1 + H.crash

\* C04: a file is logged / delivered only after its predecessor (unless the
\* cycle breaker intervened)
F_C04_Order(D, H) ==
  \A n \in Names :
    (LoggedAnyD(D, n) /\ Prev[n] # "" /\ Prev[n] # n /\ Prev[n] \in Names /\ H.clean = 0) =>
       (LoggedAnyD(D, Prev[n]) /\ FirstLogIdxD(D, Prev[n]) < FirstLogIdxD(D, n))

\* C06: nothing stays stranded between the two renames of the move once the
\* receiver is idle again; whatever was confirmed is still held
F_C06_NoStrand(D, H) == (H.idle /\ ~KF_S7) => \A t \in Targets : D.finalLck[t] = Nil
\* (a version that the sender replaced by another one is not "lost")
SupersededH(H, n) == \E v1, v2 \in 1..3 : v1 # v2 /\ <<n, v1>> \in H.seen /\ <<n, v2>> \in H.seen
F_C06_NoLoss(D, H) ==
  \A nv \in H.passed : SupersededH(H, nv[1]) \/ TaintedH(H, nv[1]) \/ HeldD(D, H, nv[1], nv[2])

\* a receive-log record is written only for a version that is then delivered: once
\* the receiver is idle every logged version has arrived or is still held
F_C06_LoggedDelivered(D, H) ==
  H.idle => \A i \in 1..Len(D.rlog) :
     LET n == D.rlog[i].n
         v == D.rlog[i].v
     IN \/ TaintedH(H, n) \/ SupersededH(H, n) \/ <<n, v>> \notin NV
        \/ H.arrive[<<n, v>>] > 0
        \/ D.waitf[n] = Good(n, v) \/ D.finalLck[Target(n, D.rlog[i].ren)] = Good(n, v)
        \/ D.final[Target(n, D.rlog[i].ren)] = Good(n, v)     \* (put there by Recover completing a move)

\* C09 (protocol half): the companion claims only blocks that were written into
\* the staged body (corruption in transit is not the record's business)
OkBody(body, have) == body # Nil /\ \A k \in have : body[k] # Z
F_C09_Sound(D, H) ==
  \A n \in Names : (D.cmp[n] # NoCmp /\ D.cmp[n].have # {} /\ ~StaleH(H, n)) =>
     \/ OkBody(D.part[n], D.cmp[n].have) \/ OkBody(D.full[n], D.cmp[n].have)
     \/ OkBody(D.waitf[n], D.cmp[n].have)
     \/ OkBody(D.finalLck[Target(n, D.cmp[n].ren)], D.cmp[n].have)
     \/ OkBody(D.final[Target(n, D.cmp[n].ren)], D.cmp[n].have)
\* a body is treated as complete only if every block was written
F_C09_Complete(D, H) == \A e \in H.treated : e.stale \/ e.holes = {}

\* C20: cleaning removes a partial or companion only of a version that was delivered
F_C20_OnlyDelivered(D, H) ==
  \A c \in H.cleaned : c.v # 0 =>
     \/ LoggedD(D, c.n, c.v) \/ (<<c.n, c.v>> \in NV /\ H.arrive[<<c.n, c.v>>] > 0)
     \* a stray duplicate partial of a file that is held validated may go; its companion may not
     \/ (c.what = "part" /\ <<c.n, c.v>> \in NV /\ D.waitf[c.n] = Good(c.n, c.v))

P_C01_Final == F_C01_Final(d, HView)
P_C01_Lck == F_C01_Lck(d, HView)
P_C01_NoFalsePass == F_C01_NoFalsePass(d, HView)
P_C05_Once == F_C05_Once(d, HView)
P_C05_LogOnce == F_C05_LogOnce(d, HView)
P_C04_Order == F_C04_Order(d, HView)
P_C06_NoStrand == F_C06_NoStrand(d, HView)
P_C06_NoLoss == F_C06_NoLoss(d, HView)
P_C06_LoggedDelivered == F_C06_LoggedDelivered(d, HView)
P_C09_Sound == F_C09_Sound(d, HView)
P_C09_Complete == F_C09_Complete(d, HView)
P_C20_OnlyDelivered == F_C20_OnlyDelivered(d, HView)

View == <<d, m, b>>
=============================================================================
