------------------------------ MODULE Payload ------------------------------
(***************************************************************************)
(* Packing of chunks into payloads: payload.Bin (Add, IsFull, Split) and   *)
(* the loop of client.Broker.startBin that drives it, transcribed from     *)
(* payload/bin.go and client/client.go.                                    *)
(*                                                                         *)
(* Input: a sequence of chunks [name, off, len] as the queue emits them    *)
(* (Queue.tla decides that the chunks tile each file).  Output: shipped    *)
(* payloads, each a sequence of parts [name, beg, end].  The only          *)
(* nondeterminism is the one-second timer of startBin, which ships a       *)
(* partly filled payload while the binner waits for input (Flush).         *)
(*                                                                         *)
(* Property formulas (C11, payload half; Split for C08) are operators over *)
(* a history H of events and speak about its last event.                   *)
(***************************************************************************)
EXTENDS Integers, Sequences, FiniteSets, TLC

None == [none |-> TRUE]

VARIABLES cap,      \* configured payload size
          inq,      \* chunks not yet taken from the queue channel
          cur,      \* the chunk being packed: [c |-> chunk, allocd |-> Int] or None
          bin,      \* payload under construction: [parts, bytes] or None
          nflush,   \* number of timer flushes so far (bounds the design check)
          hist
vars == <<cap, inq, cur, bin, nflush, hist>>

\* int64(float64(size) * 0.1); exact for the sizes used here (checked by the
\* harness self-test against the real NewBin)
Fluff(c) == c \div 10

Min(a, b) == IF a < b THEN a ELSE b

IsFull(b) ==
  LET space == cap - b.bytes
  IN space <= 0 \/ space < Fluff(cap)      \* (<= : fix of finding P1)

\* Bin.Add: <<bin', cur', added>>
Add(b, k) ==
  LET beg == k.c.off + k.allocd
      end0 == k.c.off + k.c.len
      space == (cap + Fluff(cap)) - b.bytes
      end == Min(end0, beg + space)
      n == end - beg
  IN IF n > 0
     THEN << [parts |-> Append(b.parts, [name |-> k.c.name, beg |-> beg, end |-> end]),
              bytes |-> b.bytes + n],
             [k EXCEPT !.allocd = @ + n], TRUE >>
     ELSE << b, k, FALSE >>

Allocated(k) == k.allocd = k.c.len

Ship(b) == [op |-> "ship", parts |-> b.parts, bytes |-> b.bytes]

Take ==
  /\ cur = None /\ inq # <<>>
  /\ cur' = [c |-> Head(inq), allocd |-> 0]
  /\ inq' = Tail(inq)
  /\ hist' = Append(hist, [op |-> "chunk", c |-> Head(inq)])
  /\ UNCHANGED <<cap, bin, nflush>>

\* one iteration of the loop body with a current chunk, as a function:
\* [cur, bin, ship] with ship = the payload sent on, or None
StepF(k, b) ==
  LET b0 == IF b = None THEN [parts |-> <<>>, bytes |-> 0] ELSE b
      r == Add(b0, k)
      b1 == r[1]
  IN [cur |-> IF ~r[3] \/ Allocated(r[2]) THEN None ELSE r[2],
      bin |-> IF IsFull(b1) THEN None ELSE b1,
      ship |-> IF IsFull(b1) THEN b1 ELSE None]

Step ==
  /\ cur # None
  /\ LET r == StepF(cur, bin)
     IN /\ cur' = r.cur /\ bin' = r.bin
        /\ hist' = IF r.ship # None THEN Append(hist, Ship(r.ship)) ELSE hist
  /\ UNCHANGED <<cap, inq, nflush>>

\* iterate the loop body until a payload is shipped or the chunk is used up
RECURSIVE RunToShip(_, _)
RunToShip(k, b) ==
  IF k = None THEN [cur |-> k, bin |-> b, ship |-> None]
  ELSE LET r == StepF(k, b)
       IN IF r.ship # None THEN r ELSE RunToShip(r.cur, r.bin)

\* the timer fired (or the input was closed) while waiting with a payload
Flush ==
  /\ cur = None /\ bin # None /\ bin.bytes > 0
  /\ bin' = None
  /\ hist' = Append(hist, Ship(bin))
  /\ nflush' = nflush + 1
  /\ UNCHANGED <<cap, inq, cur>>

End ==
  /\ cur = None /\ inq = <<>> /\ (IF bin = None THEN TRUE ELSE bin.bytes = 0)
  /\ hist # <<>> /\ hist[Len(hist)].op # "end"
  /\ hist' = Append(hist, [op |-> "end"])
  /\ UNCHANGED <<cap, inq, cur, bin, nflush>>

-----------------------------------------------------------------------------
(* Bin.Split(n) on a shipped payload: <<head, tail>>, tail = None for nil *)
RECURSIVE SumParts(_)
SumParts(ps) == IF ps = <<>> THEN 0
                ELSE (Head(ps).end - Head(ps).beg) + SumParts(Tail(ps))

Split(p, n) ==
  IF n < 1 \/ n >= Len(p.parts) THEN <<p, None>>
  ELSE LET tl == SubSeq(p.parts, n + 1, Len(p.parts))
           nb == SumParts(tl)
       IN << [parts |-> SubSeq(p.parts, 1, n), bytes |-> p.bytes - nb],
             [parts |-> tl, bytes |-> nb] >>

-----------------------------------------------------------------------------
(* Formulas over a history H:                                              *)
(*   [op |-> "chunk", c |-> [name, off, len]]                              *)
(*   [op |-> "ship", parts |-> Seq([name, beg, end]), bytes |-> Int]       *)
(*   [op |-> "split", n, of |-> payload, head |-> payload, tail |-> payload or None] *)
(*   [op |-> "end"]                                                        *)
Last(H) == H[Len(H)]
IsOp(H, o) == H # <<>> /\ Last(H).op = o

ChunkIdx(H) == { k \in 1..Len(H) : H[k].op = "chunk" }
\* all parts shipped in H, in order: <<k, i>> = i-th part of the ship at k
PartIdx(H) == { ki \in (1..Len(H)) \X (1..64) :
                  H[ki[1]].op = "ship" /\ ki[2] <= Len(H[ki[1]].parts) }
PartOf(H, ki) == H[ki[1]].parts[ki[2]]
\* the chunk a part was cut from: the latest chunk event before the ship with
\* that name whose range contains the part's first byte
InChunk(p, c) == p.name = c.name /\ c.off <= p.beg /\ p.beg < c.off + c.len

\* C11: a shipped payload respects the allowance and its parts are non-empty
P_C11_PayloadLimit(H) ==
  IsOp(H, "ship") =>
    LET s == Last(H)
    IN /\ s.parts # <<>>
       /\ \A i \in 1..Len(s.parts) : s.parts[i].beg < s.parts[i].end
       /\ s.bytes = SumParts(s.parts)
       /\ s.bytes <= cap + Fluff(cap)

\* C11: every part lies inside one chunk that was handed to the binner, and
\* continues exactly where the previous part of that chunk ended (ascending,
\* disjoint, gap free)
PartsOfChunk(H, k) ==
  { ki \in PartIdx(H) : ki[1] > k /\ InChunk(PartOf(H, ki), H[k].c)
      \* not a later chunk of the same name and range (a file queued again)
      /\ ~\E k2 \in ChunkIdx(H) : k2 > k /\ k2 < ki[1] /\ InChunk(PartOf(H, ki), H[k2].c) }
Before(ki, kj) == ki[1] < kj[1] \/ (ki[1] = kj[1] /\ ki[2] < kj[2])
P_C11_Contiguous(H) ==
  IsOp(H, "ship") =>
    \A i \in 1..Len(Last(H).parts) :
      LET p == Last(H).parts[i]
          me == <<Len(H), i>>
          ks == { k \in ChunkIdx(H) : InChunk(p, H[k].c) }
      IN /\ ks # {}
         /\ LET k == CHOOSE k \in ks : \A k2 \in ks : k2 <= k
                c == H[k].c
                earlier == { kj \in PartsOfChunk(H, k) : Before(kj, me) }
            IN /\ p.end <= c.off + c.len
               /\ IF earlier = {} THEN p.beg = c.off
                  ELSE LET lastp == CHOOSE kj \in earlier : \A kk \in earlier : kk = kj \/ Before(kk, kj)
                       IN p.beg = PartOf(H, lastp).end

\* C11: when the binner ends, every chunk is covered completely
P_C11_TileEnd(H) ==
  IsOp(H, "end") =>
    \A k \in ChunkIdx(H) :
      LET ps == PartsOfChunk(H, k)
          total == IF ps = {} THEN 0
                   ELSE LET RECURSIVE Sum(_)
                            Sum(S) == IF S = {} THEN 0
                                      ELSE LET x == CHOOSE x \in S : TRUE
                                           IN (PartOf(H, x).end - PartOf(H, x).beg) + Sum(S \ {x})
                        IN Sum(ps)
      IN total = H[k].c.len

\* C11 / C08: Split conserves parts and bytes
P_C11_SplitConserves(H) ==
  IsOp(H, "split") =>
    LET e == Last(H)
        n == e.n
        o == e.of
    IN IF n < 1 \/ n >= Len(o.parts)
       THEN e.tail = None /\ e.head = o
       ELSE /\ e.head.parts = SubSeq(o.parts, 1, n)
            /\ e.tail.parts = SubSeq(o.parts, n + 1, Len(o.parts))
            /\ e.head.bytes = SumParts(e.head.parts)
            /\ e.tail.bytes = SumParts(e.tail.parts)
            /\ e.head.bytes + e.tail.bytes = o.bytes

-----------------------------------------------------------------------------
(* Known finding P1: with a payload size below 10 the slack is 0, a payload *)
(* filled exactly to its size is not "full", the next Add adds nothing and  *)
(* startBin drops the rest of the chunk.                                    *)
CONSTANT KF_P1

CONSTANTS Caps, Inputs, MaxFlush, SplitOn

Init ==
  /\ cap \in Caps
  /\ inq \in Inputs
  /\ cur = None /\ bin = None /\ hist = <<>> /\ nflush = 0

DoSplit ==
  /\ SplitOn /\ IsOp(hist, "ship")
  /\ \E n \in 0..(Len(Last(hist).parts) + 1) :
       LET o == [parts |-> Last(hist).parts, bytes |-> Last(hist).bytes]
           r == Split(o, n)
       IN hist' = Append(hist, [op |-> "split", n |-> n, of |-> o, head |-> r[1], tail |-> r[2]])
  /\ UNCHANGED <<cap, inq, cur, bin, nflush>>

Next ==
  \/ Take \/ Step \/ End
  \/ (nflush < MaxFlush /\ Flush)
  \/ DoSplit

Spec == Init /\ [][Next]_vars

Inv_C11_PayloadLimit == P_C11_PayloadLimit(hist)
Inv_C11_Contiguous == P_C11_Contiguous(hist)
Inv_C11_TileEnd == (KF_P1 /\ Fluff(cap) = 0) \/ P_C11_TileEnd(hist)
Inv_C11_SplitConserves == P_C11_SplitConserves(hist)
=============================================================================
