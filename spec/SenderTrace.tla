----------------------------- MODULE SenderTrace -----------------------------
(***************************************************************************)
(* Validation of executions of the real client.Broker (with the real       *)
(* store.Local, cache.JSON, queue.Tagged, payload.Bin, http.Client) against *)
(* a real http.Server + stage.Stage.  Every call on the client.Conf        *)
(* interfaces is one event, in the order of a per-run sequence counter:    *)
(*   env (a source file written / touched / deleted), start, partials,     *)
(*   scan, add, push, pop, transmit (parts, fault, answer n / err, which   *)
(*   parts the receiver has on record afterwards), txrecover, sent,        *)
(*   validate (names, answers), done, remove (with the MD5 of the source   *)
(*   file at that instant and a snapshot of the receiver), persist, stop,  *)
(*   crash, restart, end (what is left in the source directory, the queue  *)
(*   cache, the receiver).                                                 *)
(* The formulas below are the observable clauses of C02 C03 C07 C08 C11    *)
(* C16 C17; each looks at the last event of the history H.                 *)
(***************************************************************************)
EXTENDS Integers, Sequences, FiniteSets, TLC, Json, ShutdownOrder

CONSTANTS TraceFile,
          KF_S4,    \* finding S4: a changed file of a confirmed name keeps "done" and is deleted by the scan clean-up
          KF_S23,   \* finding S23: a file whose announced predecessor was deleted at the source before it was
                    \* sent is held by the receiver for ever (it is confirmed to the sender as "waiting")
          KF_S28,   \* finding S28: parts of an older version of a file that changed while it was being sent
                    \* are transmitted after parts of the newer one (two sender threads): receiver and tracker
                    \* start over twice and lose count; the file is not completed until the sender restarts
          KF_S6     \* finding S6: the part count of a 206 answer is ignored; the whole payload is sent again
Trace == ndJsonDeserialize(TraceFile)

VARIABLES H, l
vars == <<H, l>>
Init == H = <<>> /\ l = 1
Next == /\ l <= Len(Trace) /\ l' = l + 1
        /\ H' = IF Trace[l].op = "reset" THEN <<Trace[l]>> ELSE Append(H, Trace[l])
Spec == Init /\ [][Next]_vars
TraceAccepted == TLCGet("stats").diameter = Len(Trace) + 1

-----------------------------------------------------------------------------
Last == H[Len(H)]
Is(op) == H # <<>> /\ Last.op = op
Conf == H[1].conf
Idx(op) == { k \in 1..Len(H) : H[k].op = op }
Set(sq) == { sq[i] : i \in DOMAIN sq }
Has(f, k) == k \in DOMAIN f
Min(a, b) == IF a < b THEN a ELSE b
\* the generation (restart count) an event belongs to
GenStart(k) == LET s == { j \in 1..k : H[j].op = "start" } IN IF s = {} THEN 1 ELSE CHOOSE j \in s : \A i \in s : i <= j
NoFaults == Conf.faults = <<>>
NoEnvSteps == \A i \in DOMAIN Conf.steps : Conf.steps[i].op \in {"stop", "stopnow", "crash"}
Crashes == Idx("crash") # {}
\* what the receiver holds validated for name n: set of hashes
HeldBy(r, n) ==
  (IF Has(r.final, n) THEN {r.final[n]} ELSE {}) \cup (IF Has(r.held, n) THEN {r.held[n]} ELSE {})
  \cup { r.logged[i][2] : i \in { i \in DOMAIN r.logged : r.logged[i][1] = n } }
PosAnswer(a) == a \in {"passed", "waiting"}

---- \* C02
\* a source file is marked done / deleted only if the receiver holds a validated
\* copy of exactly the content the source has at that instant, and a positive
\* poll answer for that name was received before
Released == Is("done") \/ Is("remove")
P_C02_Release ==
  (Released /\ Last.srchash # "" /\ ~(Is("done") /\ Last.already)) =>
     LET n == Last.name
         polls == { k \in Idx("validate") : Has(H[k].answers, n) /\ PosAnswer(H[k].answers[n]) }
         recoveredOK == \E k \in Idx("validate") : k > GenStart(Len(H)) /\ Has(H[k].answers, n) /\ PosAnswer(H[k].answers[n])
     IN \/ (KF_S4 /\ Is("remove") /\ \E k \in Idx("done") : H[k].name = n /\ H[k].srchash # Last.srchash)
        \* "done" marks the version in the queue cache (a file rewritten since is found again
        \* by the next scan); a deletion must concern exactly the content the source has now
        \/ (polls # {} /\ (IF Is("done") THEN Last.cachehash ELSE Last.srchash) \in HeldBy(Last.recv, n))
\* a positive answer is given only for something the receiver holds
P_C02_NoFalsePositive ==
  (Is("validate") /\ Last.fault = "") =>
     \A n \in DOMAIN Last.answers : PosAnswer(Last.answers[n]) => HeldBy(Last.recv, n) # {}

---- \* C08
\* the source file of that name was written / touched / deleted between events a and b
ChangedSince(n, a, b) == \E e \in Idx("env") : a < e /\ e < b /\ H[e].name = n
RECURSIVE IsSubseq(_, _)
IsSubseq(a, b) ==        \* a can be obtained from b by deleting elements
  IF a = <<>> THEN TRUE
  ELSE IF b = <<>> THEN FALSE
  ELSE IF Head(a) = Head(b) THEN IsSubseq(Tail(a), Tail(b)) ELSE IsSubseq(a, Tail(b))
SameParts(a, b) == a.name = b.name /\ a.beg = b.beg /\ a.end = b.end /\ a.hash = b.hash
Failed(k) == H[k].op = "transmit" /\ H[k].err # "<nil>"
RECURSIVE Leading(_, _)
Leading(flags, i) == IF i > Len(flags) \/ ~flags[i] THEN i - 1 ELSE Leading(flags, i + 1)
\* the count the sender was told for the failed transmission at k: from the 206
\* answer, else from the next /data-recovery answer for the same parts; -1 unknown
ToldCount(k) ==
  IF H[k].n > 0 THEN H[k].n
  ELSE LET rs == { j \in (k + 1)..Len(H) : H[j].op = "txrecover" /\ H[j].err = "<nil>" /\ H[j].parts = H[k].parts }
       IN IF rs = {} THEN -1 ELSE H[CHOOSE j \in rs : \A i \in rs : j <= i].n
\* after a failed request the next request carrying any of its parts carries
\* exactly the parts behind those the receiver reported as recorded
P_C08_Remainder ==
  (Is("transmit") /\ NoEnvSteps) =>
    LET t == Len(H)
        Shares(a, b) == \E i \in DOMAIN H[a].parts, j \in DOMAIN H[b].parts : SameParts(H[a].parts[i], H[b].parts[j])
        \* failed requests of which this is the first follow-up (a later complete re-send of a
        \* file, e.g. after a failed validation, is not a retry of that request)
        prevs == { k \in 1..(t - 1) : Failed(k) /\ H[k].gen = Last.gen /\ Shares(k, t)
                     /\ ~\E m \in (k + 1)..(t - 1) : H[m].op = "transmit" /\ H[m].gen = Last.gen /\ Shares(k, m) }
    IN prevs # {} =>
       LET k == CHOOSE k \in prevs : \A i \in prevs : i <= k
           c == ToldCount(k)
       IN \/ c < 0
          \* everything was recorded: nothing of it is sent again, unless the receiver has since
          \* said that the file failed its validation (then the whole file goes out again)
          \/ (c >= Len(H[k].parts) /\
               \A i \in DOMAIN H[k].parts, j \in DOMAIN Last.parts :
                  SameParts(H[k].parts[i], Last.parts[j]) =>
                     \E v \in (k + 1)..(t - 1) : H[v].op = "validate" /\ Has(H[v].answers, Last.parts[j].name)
                                                  /\ ~PosAnswer(H[v].answers[Last.parts[j].name]))
          \/ (KF_S6 /\ H[k].n > 0)
          \/ LET tail == SubSeq(H[k].parts, c + 1, Len(H[k].parts))
                 must == SelectSeq(tail, LAMBDA p : ~ChangedSince(p.name, GenStart(t), t))
             IN \* exactly the remainder, except that parts of files that changed may be dropped
                IsSubseq(Last.parts, tail) /\ IsSubseq(must, Last.parts)
\* the count the receiver reports is the number of leading parts it has on record
P_C08_ReceiverCount ==
  /\ (Is("transmit") /\ Last.fault = "fail206") => Last.n <= Leading(Last.recorded, 1)
  \* (fewer is safe - a part of a file that failed its validation meanwhile is not counted although its
  \* range is still in the companion - more would make the sender skip a part)
  /\ (Is("txrecover") /\ Last.err = "<nil>") => Last.n <= Leading(Last.recorded, 1)
\* a file is logged as sent (and then polled) only when the receiver has recorded
\* every byte that had to be sent: the distinct parts of (name, hash) that were on the
\* receiver's record right after their request add up to the send size
RecordedRanges(n, hash) ==
  { <<H[k].parts[j].beg, H[k].parts[j].end>> :
      <<k, j>> \in { x \in (1..Len(H)) \X (1..64) :
                      H[x[1]].op = "transmit" /\ x[2] \in DOMAIN H[x[1]].parts
                      /\ H[x[1]].parts[x[2]].name = n /\ H[x[1]].parts[x[2]].hash = hash
                      /\ H[x[1]].recorded[x[2]] } }
RECURSIVE SumR(_)
SumR(S) == IF S = {} THEN 0 ELSE LET x == CHOOSE x \in S : TRUE IN (x[2] - x[1]) + SumR(S \ {x})
P_C08_SentAfterAck ==
  Is("sent") => \/ SumR(RecordedRanges(Last.name, Last.hash)) >= Last.size
                \/ Last.hash \in HeldBy(Last.recv, Last.name)
                \* (a superseded version: the receiver acknowledges its parts without recording them)
                \/ ChangedSince(Last.name, 1, Len(H))
\* no part is skipped: with the run over and everything delivered, see P_C03

---- \* C07
\* after a restart, what the receiver listed as held is not transmitted again
\* (until a poll says the file has to be sent again)
LastPartials(t) ==
  LET ps == { k \in GenStart(t)..t : H[k].op = "partials" /\ Has(H[k], "list") } IN
  IF ps = {} THEN <<>> ELSE H[CHOOSE k \in ps : \A i \in ps : i <= k].list
Overlap(p, r) == p.beg < r[2] /\ r[1] < p.end
\* (a request of the crashed sender that was still in flight is not a re-send)
CurGen == H[GenStart(Len(H))].gen
P_C07_OnlyMissing ==
  (Is("transmit") /\ Idx("restart") # {} /\ Last.gen = CurGen) =>
    LET t == Len(H)
        lst == LastPartials(t)
        resend(n) == \E k \in GenStart(t)..t : H[k].op = "validate" /\ Has(H[k].answers, n) /\ ~PosAnswer(H[k].answers[n])
    IN \A j \in DOMAIN Last.parts :
         LET p == Last.parts[j] IN
         \A i \in DOMAIN lst :
            (lst[i].name = p.name /\ lst[i].hash = p.hash /\ ~resend(p.name)) =>
               \A x \in DOMAIN lst[i].parts : ~Overlap(p, lst[i].parts[x])
\* a file the receiver held completely at the restart is not transmitted again
P_C07_NoResend ==
  (Is("transmit") /\ Idx("restart") # {} /\ Last.gen = CurGen) =>
    LET s == H[GenStart(Len(H))]
    IN \A j \in DOMAIN Last.parts :
         LET p == Last.parts[j]
         IN ~(p.hash \in HeldBy(s.recv, p.name)
              /\ ~\E k \in GenStart(Len(H))..Len(H) : H[k].op = "validate" /\ Has(H[k].answers, p.name)
                                                      /\ ~PosAnswer(H[k].answers[p.name]))

---- \* C11 (the real Broker's payloads)
RECURSIVE SumP(_)
SumP(ps) == IF ps = <<>> THEN 0 ELSE (Head(ps).end - Head(ps).beg) + SumP(Tail(ps))
\* within one request the parts of a file ascend and do not overlap
P_C11_Ascending ==
  Is("transmit") => \A i, j \in DOMAIN Last.parts :
     (i < j /\ Last.parts[i].name = Last.parts[j].name
      /\ ~ChangedSince(Last.parts[i].name, GenStart(Len(H)), Len(H)))      \* (a re-queued changed file starts over)
        => Last.parts[i].end <= Last.parts[j].beg
P_C11_PayloadLimit ==
  Is("transmit") => /\ Last.parts # <<>>
                    /\ \A j \in DOMAIN Last.parts : Last.parts[j].beg < Last.parts[j].end
                    /\ SumP(Last.parts) <= Conf.payload + (Conf.payload \div 10)
\* failure-free, undisturbed run: every byte of every delivered file was transmitted exactly once
P_C11_Once ==
  (Is("end") /\ NoFaults /\ NoEnvSteps /\ ~Crashes) =>
    \A n \in DOMAIN Last.recv.final :
      LET ps == { <<k, j>> \in (1..Len(H)) \X (1..64) :
                    H[k].op = "transmit" /\ j \in DOMAIN H[k].parts /\ H[k].parts[j].name = n }
          size(x) == H[x[1]].parts[x[2]].size
          cover(o) == Cardinality({ x \in ps : H[x[1]].parts[x[2]].beg <= o /\ o < H[x[1]].parts[x[2]].end })
      IN ps # {} /\ \A x \in ps : \A o \in 0..(size(x) - 1) : cover(o) = 1

---- \* C16
P_C16_Terminates == Is("end") => Last.terminated
\* the shutdown order the hooks reported for the generation that ended (ShutdownOrder.tla)
ShutdownSeq ==
  LET idx == { k \in 1..Len(H) : H[k].op = "shutdown" /\ H[k].gen = CurGen }
      RECURSIVE Build(_, _)
      Build(S, acc) == IF S = {} THEN acc
                       ELSE LET k == CHOOSE k \in S : \A j \in S : k <= j IN Build(S \ {k}, Append(acc, H[k].what))
  IN Build(idx, <<>>)
P_C16_ExitOrder == (Is("end") /\ Last.terminated) => ExitOrderN(ShutdownSeq, Conf.threads)
\* after a graceful stop: whatever was confirmed is recorded in the queue cache on disk
P_C16_Recorded ==
  (Is("end") /\ Last.terminated /\ ~Crashes /\ Idx("stop") # {} /\ \A k \in Idx("stop") : H[k].graceful) =>
     \A k \in Idx("done") :
        (~H[k].already /\ H[k].srchash # "") =>
           LET n == H[k].name IN
           \/ ~Has(Last.cache, n)                       \* deleted and removed from the cache
           \/ Last.cache[n].done
           \/ \E j \in (k + 1)..Len(H) : H[j].op = "add" /\ H[j].name = n     \* changed and queued again
\* a graceful stop without faults finishes the work: every file a scan found is delivered
\* the name a file of the scenario has on disk, and whether the configuration makes it eligible
Actual(f) ==
  CASE f.kind = "hidden" -> "." \o f.name
    [] f.kind = "lock" -> f.name \o ".lck"
    [] f.kind = "ignored" -> "x.ign"
    [] f.kind = "notincluded" -> "x.txt"
    [] f.kind = "hiddendir" -> ".h/" \o f.name
    [] OTHER -> f.name
\* the patterns the scenarios use, on the names the scenarios use
Matches(pat, n) ==
  CASE pat = "\\.dat$" -> n \in {"ok.dat", "x.dat", ".x.dat", ".h/x.dat", "p.dat", "d/q.dat", "r.dat", "s.dat"}
    [] pat = "\\.ign$" -> n = "x.ign"
    [] pat = "^x" -> n \in {"x.dat", "x.ign", "x.txt", "x.dat.lck"}
    [] OTHER -> FALSE
EligibleFile(f) ==
  /\ f.kind # "empty" /\ f.size > 0
  /\ f.kind # "lock"                                   \* the standard ignore patterns (.lck)
  /\ (f.kind = "young" => Conf.minage = 0) /\ (f.kind # "young" => f.age >= Conf.minage)
  /\ (f.kind \in {"hidden", "hiddendir"} => Conf.hidden)
  /\ ~\E i \in DOMAIN Conf.ignore : Matches(Conf.ignore[i], Actual(f))
  /\ (Conf.include # <<>> => \E i \in DOMAIN Conf.include : Matches(Conf.include[i], Actual(f)))
AllFiles == Set(Conf.files) \cup { Conf.steps[i].file : i \in { i \in DOMAIN Conf.steps : Conf.steps[i].op = "write" } }
Eligible(n) == \A f \in AllFiles : Actual(f) = n => EligibleFile(f)
P_C16_Drain ==
  (Is("end") /\ Last.terminated /\ NoFaults /\ NoEnvSteps /\ ~Crashes /\ \A k \in Idx("stop") : H[k].graceful) =>
     \A k \in Idx("add") : H[k].hash # "" =>
        (Has(Last.recv.final, H[k].name) /\ Last.recv.final[H[k].name] = H[k].hash)

---- \* C17
\* only eligible files are found, transmitted or deleted
P_C17_Eligible ==
  /\ Is("scan") => \A i \in DOMAIN Last.found : Eligible(Last.found[i])
  /\ Is("transmit") => \A j \in DOMAIN Last.parts : Eligible(Last.parts[j].name)
  /\ Is("remove") => Eligible(Last.name)
\* the file was not written / touched / deleted after the sender started
Static(n) == ~\E e \in Idx("env") : H[e].name = n /\ \E st \in Idx("start") : st < e
\* the first scan finds every eligible file
P_C17_AllFound ==
  (Is("scan") /\ Cardinality(Idx("scan")) = 1) =>
     \A i \in DOMAIN Conf.files :
        (EligibleFile(Conf.files[i]) /\ Static(Actual(Conf.files[i]))) =>
           \E j \in DOMAIN Last.found : Last.found[j] = Actual(Conf.files[i])
\* a version that was confirmed is not transmitted again
P_C17_OncePerVersion ==
  Is("transmit") =>
    \A j \in DOMAIN Last.parts :
       ~\E k \in Idx("done") : H[k].name = Last.parts[j].name /\ H[k].cachehash = Last.parts[j].hash
                               /\ H[k].srchash = H[k].cachehash /\ ~H[k].already
                               /\ Static(H[k].name)
\* what is delivered is one complete version that the source had
P_C17_WholeVersion ==
  Is("end") => \A n \in DOMAIN Last.recv.final :
     Has(Last.versions, n) => Last.recv.final[n] \in Set(Last.versions[n])

---- \* C01 on whole transfers (the receiver alone is Stage.tla / StageTrace.tla)
\* the contents the source file of that name has had so far
EnvHashes(n) == { H[k].hash : k \in { k \in Idx("env") : H[k].name = n /\ H[k].what = "write" } }
HasRecv == H # <<>> /\ Has(Last, "recv")
\* whatever is in the final directory is, byte for byte, one version the source had
P_C01_FinalIsVersion ==
  HasRecv => \A n \in DOMAIN Last.recv.final : Last.recv.final[n] \in EnvHashes(n)
\* and a content the receive log names for it (the record is written before the move, so the final
\* directory may still hold the previous logged version for a moment)
LoggedHashes(r, n) == { r.logged[i][2] : i \in { i \in DOMAIN r.logged : r.logged[i][1] = n } }
P_C01_LoggedHash ==
  HasRecv => \A n \in DOMAIN Last.recv.final : Last.recv.final[n] \in LoggedHashes(Last.recv, n)

---- \* C03 (no stuck state at the end of a run whose faults were finite)
\* every eligible file that still exists unchanged was delivered in its latest version
Latest(n) == Last.versions[n][Len(Last.versions[n])]
\* a file written after the stop request cannot be expected to be picked up
LateChange(n) ==
  \E k \in Idx("env") : H[k].name = n /\ H[k].what = "write" /\ \E s \in Idx("stop") : s < k
VerIdx(n, hash) == IF \E i \in DOMAIN Last.versions[n] : Last.versions[n][i] = hash
                   THEN CHOOSE i \in DOMAIN Last.versions[n] : Last.versions[n][i] = hash ELSE 0
\* a part of an older version of n went out after a part of a newer one
Inverted(n) ==
  \E i, j \in Idx("transmit") : i < j /\
     \E x \in DOMAIN H[i].parts, y \in DOMAIN H[j].parts :
        /\ H[i].parts[x].name = n /\ H[j].parts[y].name = n
        /\ VerIdx(n, H[j].parts[y].hash) < VerIdx(n, H[i].parts[x].hash)
P_C03_Delivered ==
  (Is("end") /\ Last.terminated /\ (\A k \in Idx("stop") : H[k].graceful)
   /\ ~(KF_S23 /\ \E k \in Idx("env") : H[k].what = "delete")) =>
     \A n \in DOMAIN Last.versions :
        (Eligible(n) /\ ~(\E k \in Idx("env") : H[k].what = "delete" /\ H[k].name = n)
         /\ ~(KF_S4 /\ Len(Last.versions[n]) > 1)
         /\ ~LateChange(n) /\ ~(KF_S28 /\ Inverted(n))) =>
           (Has(Last.recv.final, n) /\ Last.recv.final[n] = Latest(n))
=============================================================================
