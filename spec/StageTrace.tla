----------------------------- MODULE StageTrace -----------------------------
(***************************************************************************)
(* Validation of executions of the real stage.Stage against Stage.tla.     *)
(*                                                                         *)
(* The trace file holds recorded scenarios ("reset" starts one).  A "cmd"  *)
(* event is one call of the GateKeeper API (or an environment step) run to *)
(* quiescence, with what was observed afterwards: the durable state (post: *)
(* staged bodies as block tags, companions, final directory, receive log), *)
(* the in-memory projection (mem), the answer (res) and what the hooks     *)
(* reported (arrived, cleaned, treated, crashed).                          *)
(*                                                                         *)
(* Part 1 (ObsSpec): the observed states and the history computed from the *)
(* events are fed to the SAME formulas F_* that TLC checks on the design;  *)
(* O_* are step formulas over two consecutive observed states.  This part  *)
(* consumes every trace; a false formula is a violation by the real code.  *)
(***************************************************************************)
EXTENDS Stage, Json, SequencesExt

CONSTANT TraceFile
Trace == ndJsonDeserialize(TraceFile)

VARIABLES oD,    \* the durable state observed last
          oM,    \* the memory projection observed last
          oH,    \* history, computed from the events
          oP,    \* the durable state observed before the last event
          oE,    \* the last event
          l
ovars == <<oD, oM, oH, oP, oE, l, d, m, b, h>>

Set(sq) == { sq[i] : i \in DOMAIN sq }
\* JSON -> the representation of Stage.tla
CmpOf(c) == [v |-> c.v, prev |-> c.prev, ren |-> c.ren, have |-> Set(c.have)]
DurOf(p) == [part |-> p.part, full |-> p.full, waitf |-> p.waitf,
             cmp |-> [n \in Names |-> CmpOf(p.cmp[n])], old |-> p.old,
             finalLck |-> p.finalLck, final |-> p.final, rlog |-> p.rlog]
EmptyD == [part |-> [n \in Names |-> Nil], full |-> [n \in Names |-> Nil], waitf |-> [n \in Names |-> Nil],
           cmp |-> [n \in Names |-> NoCmp], old |-> [n \in Names |-> FALSE],
           finalLck |-> [t \in Targets |-> Nil], final |-> [t \in Targets |-> Nil], rlog |-> <<>>]
EmptyM == [cache |-> [n \in Names |-> Unknown], wait |-> <<>>, timers |-> <<>>, ready |-> TRUE]
EmptyH == [arrive |-> [nv \in NV |-> 0], ans |-> NoAns, passed |-> {}, cleaned |-> {}, treated |-> {},
           stale |-> {}, taint |-> {}, redo |-> {}, shadow |-> {}, seen |-> {}, s15 |-> {},
           crash |-> 0, clean |-> 0, idle |-> TRUE, pcache |-> EmptyM.cache]
NoEv == [op |-> "none"]

ObsInit ==
  /\ l = 1 /\ oD = EmptyD /\ oM = EmptyM /\ oH = EmptyH /\ oP = EmptyD /\ oE = NoEv
  /\ Init

TwoLogged(D) == { n \in Names : \E i, j \in 1..Len(D.rlog) :
                     D.rlog[i].n = n /\ D.rlog[j].n = n /\ D.rlog[i].v # D.rlog[j].v }
Count(sq, x) == Cardinality({ i \in DOMAIN sq : sq[i] = x })

HistAfter(H, P, M, e) ==
  LET c == e.cmd
      D == DurOf(e.post)
      isRecv == c.op \in {"recv", "prepare"}
      n == IF isRecv \/ c.op \in {"status", "received"} THEN c.n ELSE ""
      crashed == e.crashed \/ c.op = "restart"
      cst == IF isRecv THEN M.cache[c.n].st ELSE ""
      cmpPrep == IF isRecv
                 THEN (IF P.part[c.n] = Nil /\ P.cmp[c.n] # NoCmp /\ cst \in {"unknown", "failed"}
                       THEN NoCmp ELSE P.cmp[c.n])
                 ELSE NoCmp
      setStale == isRecv /\ P.part[c.n] = Nil /\ cmpPrep # NoCmp
      clear == c.op = "recv" /\ e.res = "ok" /\ (cmpPrep = NoCmp \/ cmpPrep.v # c.v)
      stale1 == IF clear THEN H.stale \ {c.n} ELSE IF setStale THEN H.stale \cup {c.n} ELSE H.stale
      s151 == IF c.op = "recv" /\ cmpPrep # NoCmp /\ cmpPrep.v # c.v /\ (P.waitf[c.n] # Nil \/ P.full[c.n] # Nil)
              THEN H.s15 \cup {c.n} ELSE H.s15
      ansv == IF c.op = "status" THEN e.mem.cache[c.n].v ELSE IF c.op \in {"recv", "received"} THEN c.v ELSE 0
  IN [arrive |-> [nv \in NV |-> H.arrive[nv] + Count(e.arrived, <<nv[1], nv[2]>>)],
      ans |-> IF c.op \in {"status", "recv", "received"}
              THEN [kind |-> c.op, n |-> c.n, v |-> ansv, res |-> e.res] ELSE H.ans,
      passed |-> IF c.op = "status" /\ e.res \in {"passed", "waiting"}
                 THEN H.passed \cup {<<c.n, ansv>>} ELSE H.passed,
      cleaned |-> H.cleaned \cup Set(e.cleaned),
      treated |-> H.treated \cup { [n |-> x.n, stale |-> (KF_S19 /\ x.n \in stale1), holes |-> Set(x.holes)] :
                                    x \in Set(e.treated) },
      stale |-> stale1,
      s15 |-> s151,
      taint |-> IF crashed THEN H.taint \cup { x \in s151 : D.waitf[x] # Nil } ELSE H.taint,
      redo |-> IF crashed
               THEN H.redo \cup { x \in Names : D.cmp[x] # NoCmp /\ LoggedD(D, x, D.cmp[x].v) /\
                                     (D.full[x] # Nil \/ D.waitf[x] # Nil \/
                                      (D.part[x] # Nil /\ D.cmp[x].have = Blocks)) }
               ELSE H.redo,
      shadow |-> IF crashed \/ c.op = "expire" THEN H.shadow \cup TwoLogged(D) ELSE H.shadow,
      seen |-> IF isRecv THEN H.seen \cup {<<c.n, c.v>>} ELSE H.seen,
      crash |-> H.crash + (IF crashed THEN 1 ELSE 0),
      clean |-> H.clean + (IF c.op = "clean" THEN 1 ELSE 0),
      idle |-> ~e.crashed,
      pcache |-> M.cache]                  \* what the receiver remembered before this event

ObsNext ==
  /\ l <= Len(Trace)
  /\ l' = l + 1
  /\ LET e == Trace[l]
     IN IF e.op = "reset"
        THEN oD' = EmptyD /\ oM' = EmptyM /\ oH' = EmptyH /\ oP' = EmptyD /\ oE' = NoEv
        ELSE /\ oD' = DurOf(e.post) /\ oP' = oD /\ oE' = e
             /\ oM' = e.mem
             /\ oH' = HistAfter(oH, oD, oM, e)
  /\ UNCHANGED <<d, m, b, h>>

ObsSpec == ObsInit /\ [][ObsNext]_ovars
TraceAccepted == TLCGet("stats").diameter = Len(Trace) + 1

-----------------------------------------------------------------------------
(* the design's formulas on what was observed *)
Obs_C01_Final == F_C01_Final(oD, oH)
Obs_C01_Lck == F_C01_Lck(oD, oH)
Obs_C01_NoFalsePass == F_C01_NoFalsePass(oD, oH)
Obs_C05_Once == F_C05_Once(oD, oH)
Obs_C05_LogOnce == F_C05_LogOnce(oD, oH)
Obs_C04_Order == F_C04_Order(oD, oH)
Obs_C06_NoStrand == F_C06_NoStrand(oD, oH)
Obs_C06_NoLoss == F_C06_NoLoss(oD, oH)
Obs_C06_LoggedDelivered == F_C06_LoggedDelivered(oD, oH)
Obs_C09_Sound == F_C09_Sound(oD, oH)
Obs_C09_Complete == F_C09_Complete(oD, oH)
Obs_C20_OnlyDelivered == F_C20_OnlyDelivered(oD, oH)

(* step formulas over the last event *)
IsCmd(op) == oE.op = "cmd" /\ oE.cmd.op = op
SameBodies == oD.full = oP.full /\ oD.waitf = oP.waitf /\ oD.final = oP.final
              /\ oD.finalLck = oP.finalLck /\ oD.rlog = oP.rlog

\* C01: a complete body whose content does not match the announced hash is
\* reported as failed, and is not delivered
Obs_C01_FailedReported ==
  (IsCmd("status") /\ ~oE.crashed) =>
     LET n == oE.cmd.n
     IN (oD.full[n] # Nil /\ oD.cmp[n] # NoCmp /\ oD.full[n] # Good(n, oD.cmp[n].v)
         /\ oM.cache[n].st # "unknown" /\ ~StaleH(oH, n))
          => oE.res = "failed"

\* C04: a validated file whose predecessor is not delivered is held and reported
\* as waiting; "waiting" is said only for a held file
Obs_C04_Held ==
  (IsCmd("status") /\ ~oE.crashed) =>
     LET n == oE.cmd.n
         p == Prev[n]
         held == oD.waitf[n] # Nil /\ p # "" /\ p # n /\ p \in Names /\ ~LoggedAnyD(oD, p)
                 /\ oM.cache[n].st = "validated"
     IN /\ (held /\ oH.clean = 0) => (oE.res = "waiting" /\ oD.final[Target(n, Ren[n])] # oD.waitf[n])
        /\ oE.res = "waiting" => oD.waitf[n] # Nil

\* C05: queries change nothing durable; a part of an already delivered version is
\* acknowledged and neither re-stages nor re-delivers anything
Obs_C05_QueryNoEffect ==
  (oE.op = "cmd" /\ oE.cmd.op \in {"status", "received", "received2", "scan"} /\ ~oE.crashed) =>
     (SameBodies /\ oD.part = oP.part /\ oD.cmp = oP.cmp)
Obs_C05_DupAnswered ==
  (IsCmd("recv") /\ ~oE.crashed /\ oE.cmd.dv = oE.cmd.v /\ oE.cmd.lo = 1 /\ oE.cmd.hi = NB) =>
     LET n == oE.cmd.n
         v == oE.cmd.v
     IN (LoggedD(oP, n, v) /\ oP.final[Target(n, Ren[n])] = Good(n, v)
         /\ oP.part[n] = Nil /\ oP.cmp[n] = NoCmp /\ oP.full[n] = Nil /\ oP.waitf[n] = Nil
         /\ oH.pcache[n].st \in {"finalized", "logged"} /\ oH.pcache[n].v = v)
        => (oE.res = "ok" /\ oE.arrived = <<>> /\ oD.rlog = oP.rlog /\ oD.final = oP.final
            /\ oD.full[n] = Nil /\ oD.waitf[n] = Nil /\ oD.part[n] = Nil /\ oD.cmp[n] = NoCmp)

\* a part of a version that is delivered and logged is known to the receiver ("did you receive this"
\* is answered yes), also when the delivery is known only from the log
Obs_C05_KnownDelivered ==
  (IsCmd("received") /\ ~oE.crashed) =>
     LET n == oE.cmd.n
         v == oE.cmd.v
     IN (LoggedD(oP, n, v) /\ oP.final[Target(n, Ren[n])] = Good(n, v)
         /\ oP.part[n] = Nil /\ oP.cmp[n] = NoCmp /\ oP.full[n] = Nil /\ oP.waitf[n] = Nil
         /\ ~StaleH(oH, n) /\ ~ShadowH(oH, n) /\ ~TaintedH(oH, n)
         /\ oH.pcache[n].st # "failed")
        => oE.res = "yes"

\* C09: what Scan lists and what Received confirms is in a staged body
Obs_C09_Scan ==
  (IsCmd("scan") /\ ~oE.crashed) =>
     \A i \in DOMAIN oE.scan :
        LET x == oE.scan[i]
        IN (x.n \in Names /\ ~StaleH(oH, x.n)) =>
             /\ oD.cmp[x.n] # NoCmp /\ Set(x.have) = oD.cmp[x.n].have /\ x.v = oD.cmp[x.n].v
Obs_C09_Received ==
  (IsCmd("received") /\ ~oE.crashed /\ oE.res = "yes") =>
     LET n == oE.cmd.n
         v == oE.cmd.v
         blks == oE.cmd.lo..oE.cmd.hi
         inBody(body) == body # Nil /\ \A k \in blks : body[k] # Z
     IN \/ StaleH(oH, n) \/ ShadowH(oH, n)
        \/ inBody(oD.part[n]) \/ inBody(oD.full[n]) \/ inBody(oD.waitf[n])
        \/ LoggedD(oD, n, v) \/ oH.arrive[<<n, v>>] > 0

\* the count answered for a list of parts covers only LEADING parts that are on record
Obs_C09_ReceivedN ==
  (IsCmd("received2") /\ ~oE.crashed) =>
     LET onRecord(n, v, lo, hi) ==
           LET inBody(body) == body # Nil /\ \A k \in lo..hi : body[k] # Z
           IN \/ StaleH(oH, n) \/ ShadowH(oH, n)
              \/ inBody(oD.part[n]) \/ inBody(oD.full[n]) \/ inBody(oD.waitf[n])
              \/ LoggedD(oD, n, v) \/ oH.arrive[<<n, v>>] > 0
         c == oE.cmd
     IN /\ oE.res \in {"1", "2"} => onRecord(c.n, c.v, c.lo, c.hi)
        /\ oE.res = "2" => onRecord(c.n2, c.v2, c.lo2, c.hi2)

\* C20: cleaning touches nothing but day-old partials (and their companions)
Obs_C20_NoTouch ==
  (IsCmd("clean") /\ ~oE.crashed) =>
     /\ oD.full = oP.full /\ oD.final = oP.final /\ oD.finalLck = oP.finalLck
     /\ \A n \in Names :
          /\ (oP.part[n] # Nil /\ ~oP.old[n]) => (oD.part[n] = oP.part[n] /\ oD.cmp[n] = oP.cmp[n])
          /\ oP.part[n] = Nil => (oD.cmp[n] = oP.cmp[n] \/ oD.waitf[n] # oP.waitf[n])
          /\ (oD.waitf[n] = oP.waitf[n] \/ oH.clean > 0)

\* C06: after Recover() whatever the receiver has on record for a file (its
\* companion) is one of: an accurate record of a partly received file; a complete
\* file validated again and held; a complete file that failed validation (to be
\* sent again).  Bodies without a record are not claimed by anybody.
Obs_C06_Trichotomy ==
  (oE.op = "cmd" /\ oE.cmd.op \in {"recover", "restart"} /\ ~oE.crashed) =>
     \A n \in Names :
        LET k == oD.cmp[n]
        IN k # NoCmp =>
           \/ StaleH(oH, n) \/ TaintedH(oH, n) \/ RedoneH(oH, n)
           \/ /\ oD.part[n] # Nil /\ k.have # Blocks /\ \A j \in k.have : oD.part[n][j] # Z
           \/ /\ oD.waitf[n] # Nil /\ oD.waitf[n] = Good(n, k.v) /\ oM.cache[n].st = "validated"
           \/ /\ oD.full[n] # Nil /\ oD.full[n] # Good(n, k.v) /\ oM.cache[n].st = "failed"
=============================================================================
