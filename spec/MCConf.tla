------------------------------- MODULE MCConf -------------------------------
EXTENDS Conf, Json
W4 == {"A", "Z", "V1", "V2"}
W3 == {"A", "Z", "V1"}
W1 == {"A"}
TagVals == [tnum : W4, tbm : W3]
NoTags == { <<>> }
Tags2 == { <<>> } \cup { <<x, y>> : x \in TagVals, y \in TagVals }
CONSTANT Emit
EmitScenario == Emit => PrintT("SCN " \o ToJson(c))
=============================================================================
