------------------------------ MODULE GateTrace ------------------------------
(* Trace validation for the request gate: every "req" event carries the      *)
(* server configuration, the abstract request, whether start-up recovery was *)
(* parked (ready = FALSE) and what was observed: status and touched          *)
(* locations (from a before / after listing of the whole sandbox).           *)
EXTENDS Gate, Json
CONSTANT TraceFile
Trace == ndJsonDeserialize(TraceFile)
VARIABLE l
tvars == <<conf, ready, ev, l>>
Set(sq) == { sq[i] : i \in DOMAIN sq }
Touch(t) == [area |-> t.area, dir |-> t.dir, escaped |-> t.escaped]
Obs(e) == [op |-> "req", conf |-> [sources |-> Set(e.sources), keys |-> Set(e.keys)],
           req |-> e.req, ready |-> e.ready, early |-> e.early,
           ans |-> [status |-> e.ans.status, touched |-> { Touch(t) : t \in Set(e.ans.touched) }]]
TraceInit == l = 1 /\ conf = [sources |-> {}, keys |-> {}] /\ ready = TRUE /\ ev = [op |-> "none"]
TraceNext == l <= Len(Trace) /\ l' = l + 1 /\ ev' = Obs(Trace[l])
             \* (as found, S14: a request that arrives before Recover() was scheduled sees "ready")
             /\ conf' = ev'.conf /\ ready' = (ev'.ready \/ (KF_S14 /\ ev'.early))
TraceSpec == TraceInit /\ [][TraceNext]_tvars
TraceAccepted == TLCGet("stats").diameter = Len(Trace) + 1
Obs_C14_Confined == P_C14_Confined(ev)
Obs_C14_RefusedClean == P_C14_RefusedClean(ev)
Obs_C15_Refused == P_C15_Refused(ev)
Obs_C15_Unavailable == P_C15_Unavailable(ev)
\* conformance: same effect, same kind of answer (2xx or not)
Ok2(s) == s \in {"200", "206"}
\* an absolute name is refused as it stands and neutralised (leading separator dropped) when the
\* request names its separator: which of the two the rendering chose is not part of the abstract request
HasAbs(sq) == \E i \in 1..Len(sq) : sq[i] = "ABS"
Conform == ev.op = "none" \/ Redirected(ev) \/ HasAbs(ev.req.name) \/ HasAbs(ev.req.ren) \/
           \* (delivery into the final directory is asynchronous: what was seen is part of what is predicted)
           LET a == Answer(ev.req) IN /\ ev.ans.touched \subseteq a.touched /\ (a.touched = {} <=> ev.ans.touched = {})
                                      /\ Ok2(a.status) = Ok2(ev.ans.status)
=============================================================================
