------------------------------- MODULE Sender -------------------------------
(***************************************************************************)
(* The goroutine choreography of client.Broker.Start (client/client.go):   *)
(* one PlusCal process per goroutine group, one label per blocking point,  *)
(* channels with a capacity, the stop flags, the WaitGroups and the        *)
(* downstream-ward closing of the channels by Start.                       *)
(*                                                                         *)
(* A file is one part and a payload carries one file (tiling is Queue.tla  *)
(* and Payload.tla); what is modelled is who waits for whom:               *)
(*   scanner -> chScanned -> queue -> chQueued -> binner -> chTransmit ->  *)
(*   senders -> chTransmitted -> tracker -> chValidate -> validator ->     *)
(*   chRetry -> retriers -> chScanned,   senders -> chStats -> stats.      *)
(* sendCh / recvCh are the timed channel operations that re-check a stop   *)
(* predicate every second: "either the channel operation or, if the        *)
(* predicate holds, give up".                                              *)
(*                                                                         *)
(* Environment: a stop request of either kind at any moment (also before   *)
(* Start, as a one-shot run does), transmissions and polls that fail a     *)
(* bounded number of times, validations that fail a bounded number of      *)
(* times, and (DropParts) a file one of whose parts is dropped from a      *)
(* failed payload because it vanished at the source, so that it never      *)
(* reaches its size in the tracker.                                        *)
(*                                                                         *)
(* KF_S17 / KF_S27 switch the tracker back to the code as found (two       *)
(* shutdown hangs, repaired in /repo): with a switch on TLC must find the  *)
(* hang, which shows that the model can represent it.                      *)
(***************************************************************************)
EXTENDS Integers, Sequences, FiniteSets, TLC

CONSTANTS Files,        \* the files the first scan finds
          Cap,          \* capacity of the pipeline channels (2 * Threads in the code)
          Senders,      \* the sender goroutines (Threads of them), e.g. {"x1", "x2"}
          Retriers,     \* the retry goroutines (as many)
          MaxFaults,    \* request failures (transmit or poll) the environment may inject
          MaxFail,      \* negative validation verdicts the environment may inject
          DropParts,    \* BOOLEAN: a transmitted file may have lost a part (never completes)
          KF_S17, KF_S27

NSend == Cardinality(Senders)

(* --algorithm broker
variables
  stopReq = "none",            \* what the environment asked for
  stop = FALSE, graceful = FALSE, chStopReady = FALSE,
  chScanned = <<>>, clScanned = FALSE,          \* capacity 1
  chQueued = <<>>, clQueued = FALSE,
  chTransmit = <<>>, clTransmit = FALSE,
  chTransmitted = <<>>, clTransmitted = FALSE,
  chValidate = <<>>, clValidate = FALSE,
  chRetry = <<>>, clRetry = FALSE,
  chStats = 0, clStats = FALSE,
  wgScanned = 1, wgQueued = 1, wgFailed = NSend, wgTransmit = 1, wgTransmitted = NSend,
  wgStats = 1, wgValidate = 1, wgValidated = 1,
  found = {}, Q = {}, doneF = {}, failedF = {}, dropped = {},
  faults = MaxFaults, fails = MaxFail,
  started = FALSE, returned = FALSE;

define
  StopNow == stop /\ ~graceful
  Min(a, b) == IF a < b THEN a ELSE b
  SeqOf(S) == CHOOSE q \in [1..Cardinality(S) -> S] : \A i, j \in 1..Cardinality(S) : i # j => q[i] # q[j]
end define;

\* ---- the environment: a stop request before Start (one-shot) or at any later moment, or never
fair process env = "env"
begin
e0: either stopReq := "graceful" or stopReq := "now" or skip end either;
e1: if stopReq = "none" then
      either await started; stopReq := "graceful"
      or await started; stopReq := "now"
      or skip
      end either;
    end if;
end process;

\* ---- the goroutine of Start that turns the request into the flags and the chStop message
fair process stopper = "stopper"
begin
p0: await stopReq # "none";
    stop := TRUE || graceful := (stopReq = "graceful");
p1: chStopReady := TRUE;        \* blocks in "chStop <- graceful" until the scanner receives
end process;

\* ---- Start: recover, start the goroutines, wait and close downstream-ward
fair process main = "main"
begin
m0: if StopNow then returned := TRUE; goto mEnd; else started := TRUE; end if;
m1: await wgScanned = 0;
m2: await wgFailed = 0; clScanned := TRUE;
m3: await wgQueued = 0; clQueued := TRUE;
m4: await wgTransmit = 0; clTransmit := TRUE;
m5: await wgTransmitted = 0; clTransmitted := TRUE;
m6: await wgValidate = 0; clValidate := TRUE || clStats := TRUE;
m7: await wgStats = 0;
m8: await wgValidated = 0; clRetry := TRUE;
m9: await wgFailed = 0; returned := TRUE;
mEnd: skip;
end process;

\* ---- startScan: scan, hand the batch over (sendCh with shouldStopNow), wait for the delay or chStop
fair process scanner = "scanner"
variables new = {};
begin
s0: await started;
s1: new := Files \ found; found := found \cup new;
s2: if new # {} then
      either await Len(chScanned) < 1; chScanned := Append(chScanned, new); new := {};
      or await StopNow; new := {}; goto sX;
      end either;
    end if;
s3: either await chStopReady; goto sX;
    or await ~chStopReady; goto s1;           \* the scan delay elapsed
    end either;
sX: wgScanned := wgScanned - 1;
end process;

\* ---- startQueue: push batches, pop chunks (sendCh with shouldStopNow); leaves when its input is
\* closed and the queue is empty, or at once on an immediate stop
fair process queue = "queue"
variables inOpen = TRUE, nxt = "none";
begin
q0: await started;
q1: either await chScanned # <<>>; Q := Q \cup Head(chScanned); chScanned := Tail(chScanned);
    or await inOpen /\ chScanned = <<>> /\ clScanned;
       if StopNow then goto qX; else inOpen := FALSE; end if;
    or await Q # {};
       with f \in Q do nxt := f; Q := Q \ {f}; end with;
  q2:  either await Len(chQueued) < Cap; chQueued := Append(chQueued, nxt); nxt := "none";
       or await StopNow; nxt := "none"; goto qX;
       end either;
    or await Q = {} /\ ~inOpen; goto qX;
    end either;
q3: goto q1;
qX: wgQueued := wgQueued - 1;
end process;

\* ---- startBin: one file per payload; flushes on full / timer / closed input
fair process binner = "binner"
variables cur = "none";
begin
b0: await started;
b1: either await chQueued # <<>>;
       if StopNow then chQueued := Tail(chQueued); goto bX;
       else cur := Head(chQueued); chQueued := Tail(chQueued);
       end if;
  b2:  either await Len(chTransmit) < Cap; chTransmit := Append(chTransmit, cur); cur := "none";
       or await StopNow; cur := "none"; goto bX;
       end either;
    or await chQueued = <<>> /\ clQueued; goto bX;
    end either;
b3: goto b1;
bX: wgTransmit := wgTransmit - 1;
end process;

\* ---- startSend: transmit (retrying for ever unless told to stop at once), stat, hand over
fair process sender \in Senders
variables pl = "none";
begin
x0: await started;
x1: either await chTransmit # <<>>;
       if StopNow then chTransmit := Tail(chTransmit); goto xX;
       else pl := Head(chTransmit); chTransmit := Tail(chTransmit);
       end if;
    or await chTransmit = <<>> /\ clTransmit; goto xX;
    end either;
x3: if StopNow then pl := "none"; goto xX;
    else
      either skip;                                              \* transmitted
      or await faults > 0; faults := faults - 1; goto x3;       \* failed: recovery request, back-off, again
      or await DropParts /\ faults > 0 /\ pl \notin dropped;    \* failed, and a part of the file was
         faults := faults - 1; dropped := dropped \cup {pl};    \* dropped from the payload (file vanished)
      end either;
    end if;
x4: await ~clStats; chStats := 1;                               \* stat(): a plain send; the stats goroutine drains
x5: either await Len(chTransmitted) < Cap; chTransmitted := Append(chTransmitted, pl); pl := "none"; goto x1;
    or await StopNow; pl := "none";
    end either;
xX: wgTransmitted := wgTransmitted - 1;
end process;

fair process stats = "stats"
begin
z0: await started;
z1: either await chStats > 0; chStats := 0; goto z1;
    or await chStats = 0 /\ clStats;
    end either;
zX: wgStats := wgStats - 1;
end process;

\* ---- startTrack: files whose bytes were all acknowledged go to the validator (a 1 ms timed send);
\* blocks on its input when it holds nothing, polls it with a 1 s timer otherwise
fair process tracker = "tracker"
variables progress = {}, tin = TRUE;
begin
t0: await started;
t1: if StopNow then goto tX;
    elsif (IF ~tin /\ ~KF_S17 THEN progress \ dropped ELSE progress) = {} /\ ~tin then goto tX;       \* nothing held and nothing more to come
    else progress := (IF ~tin /\ ~KF_S17 THEN progress \ dropped ELSE progress);   \* (fix S17)
    end if;
t2: \* complete files go to the validator as far as its channel takes them (1 ms timed sends)
    with k = Min(Cardinality(progress \ dropped), Cap - Len(chValidate)),
         S \in { T \in SUBSET (progress \ dropped) : Cardinality(T) = k } do
      chValidate := chValidate \o SeqOf(S);
      progress := progress \ S;
      if progress \ S = {} /\ ~tin /\ ~KF_S27 then goto tX; end if;      \* (fix S27)
    end with;
t3: either await tin /\ chTransmitted # <<>>; progress := progress \cup {Head(chTransmitted)};
           chTransmitted := Tail(chTransmitted);
    or await tin /\ chTransmitted = <<>> /\ clTransmitted; tin := FALSE;
    or await progress # {}; skip;            \* the 1 s timer, armed only while something is held
    end either;                              \* with nothing held and the input gone this select blocks for ever
t4: goto t1;
tX: wgValidate := wgValidate - 1;
end process;

\* ---- startValidate: poll; verdicts: done, or failed -> hand to the retriers (sendCh with shouldStop)
fair process validator = "validator"
variables poll = {}, vin = TRUE, cf = "none";
begin
v0: await started;
v1: if StopNow then goto vX; elsif poll = {} /\ ~vin then goto vX; end if;
v2: either await vin /\ chValidate # <<>>; poll := poll \cup {Head(chValidate)}; chValidate := Tail(chValidate);
    or await vin /\ chValidate = <<>> /\ clValidate; vin := FALSE;
    or await poll # {}; skip;                \* the poll-delay timer, armed only while something is held
    end either;
v3: if poll = {} then goto v1; elsif StopNow then goto vX; end if;
v5: either await faults > 0; faults := faults - 1; goto v3;         \* the poll request failed: again
    or with f \in poll do                                            \* the answer for one of them
         poll := poll \ {f};
         either doneF := doneF \cup {f}; goto v1;                    \* passed / waiting: finish()
         or await fails > 0; fails := fails - 1; failedF := failedF \cup {f}; cf := f;   \* failed / gave up
         end either;
       end with;
    end either;
v8: either await Len(chRetry) < Cap; chRetry := Append(chRetry, cf); cf := "none";
    or await stop; cf := "none";                                      \* sendCh(shouldStop, chRetry, ...)
    end either;
v9: goto v1;
vX: wgValidated := wgValidated - 1;
end process;

\* ---- startRetry: takes failed files (recvCh with shouldStop), re-hashes, feeds them to the scanner's
\* channel (sendCh with shouldStop); leaves on any stop
fair process retrier \in Retriers
variables rf = "none";
begin
r0: await started;
r1: either await chRetry # <<>>; rf := Head(chRetry); chRetry := Tail(chRetry);
    or await chRetry = <<>> /\ clRetry; goto rX;
    or await stop; goto rX;
    end either;
r2: either await Len(chScanned) < 1; chScanned := Append(chScanned, {rf}); rf := "none";
    or await stop; rf := "none"; goto rX;
    end either;
r3: goto r1;
rX: wgFailed := wgFailed - 1;
end process;
end algorithm; *)
\* BEGIN TRANSLATION
VARIABLES pc, stopReq, stop, graceful, chStopReady, chScanned, clScanned, 
          chQueued, clQueued, chTransmit, clTransmit, chTransmitted, 
          clTransmitted, chValidate, clValidate, chRetry, clRetry, chStats, 
          clStats, wgScanned, wgQueued, wgFailed, wgTransmit, wgTransmitted, 
          wgStats, wgValidate, wgValidated, found, Q, doneF, failedF, dropped, 
          faults, fails, started, returned

(* define statement *)
StopNow == stop /\ ~graceful
Min(a, b) == IF a < b THEN a ELSE b
SeqOf(S) == CHOOSE q \in [1..Cardinality(S) -> S] : \A i, j \in 1..Cardinality(S) : i # j => q[i] # q[j]

VARIABLES new, inOpen, nxt, cur, pl, progress, tin, poll, vin, cf, rf

vars == << pc, stopReq, stop, graceful, chStopReady, chScanned, clScanned, 
           chQueued, clQueued, chTransmit, clTransmit, chTransmitted, 
           clTransmitted, chValidate, clValidate, chRetry, clRetry, chStats, 
           clStats, wgScanned, wgQueued, wgFailed, wgTransmit, wgTransmitted, 
           wgStats, wgValidate, wgValidated, found, Q, doneF, failedF, 
           dropped, faults, fails, started, returned, new, inOpen, nxt, cur, 
           pl, progress, tin, poll, vin, cf, rf >>

ProcSet == {"env"} \cup {"stopper"} \cup {"main"} \cup {"scanner"} \cup {"queue"} \cup {"binner"} \cup (Senders) \cup {"stats"} \cup {"tracker"} \cup {"validator"} \cup (Retriers)

Init == (* Global variables *)
        /\ stopReq = "none"
        /\ stop = FALSE
        /\ graceful = FALSE
        /\ chStopReady = FALSE
        /\ chScanned = <<>>
        /\ clScanned = FALSE
        /\ chQueued = <<>>
        /\ clQueued = FALSE
        /\ chTransmit = <<>>
        /\ clTransmit = FALSE
        /\ chTransmitted = <<>>
        /\ clTransmitted = FALSE
        /\ chValidate = <<>>
        /\ clValidate = FALSE
        /\ chRetry = <<>>
        /\ clRetry = FALSE
        /\ chStats = 0
        /\ clStats = FALSE
        /\ wgScanned = 1
        /\ wgQueued = 1
        /\ wgFailed = NSend
        /\ wgTransmit = 1
        /\ wgTransmitted = NSend
        /\ wgStats = 1
        /\ wgValidate = 1
        /\ wgValidated = 1
        /\ found = {}
        /\ Q = {}
        /\ doneF = {}
        /\ failedF = {}
        /\ dropped = {}
        /\ faults = MaxFaults
        /\ fails = MaxFail
        /\ started = FALSE
        /\ returned = FALSE
        (* Process scanner *)
        /\ new = {}
        (* Process queue *)
        /\ inOpen = TRUE
        /\ nxt = "none"
        (* Process binner *)
        /\ cur = "none"
        (* Process sender *)
        /\ pl = [self \in Senders |-> "none"]
        (* Process tracker *)
        /\ progress = {}
        /\ tin = TRUE
        (* Process validator *)
        /\ poll = {}
        /\ vin = TRUE
        /\ cf = "none"
        (* Process retrier *)
        /\ rf = [self \in Retriers |-> "none"]
        /\ pc = [self \in ProcSet |-> CASE self = "env" -> "e0"
                                        [] self = "stopper" -> "p0"
                                        [] self = "main" -> "m0"
                                        [] self = "scanner" -> "s0"
                                        [] self = "queue" -> "q0"
                                        [] self = "binner" -> "b0"
                                        [] self \in Senders -> "x0"
                                        [] self = "stats" -> "z0"
                                        [] self = "tracker" -> "t0"
                                        [] self = "validator" -> "v0"
                                        [] self \in Retriers -> "r0"]

e0 == /\ pc["env"] = "e0"
      /\ \/ /\ stopReq' = "graceful"
         \/ /\ stopReq' = "now"
         \/ /\ TRUE
            /\ UNCHANGED stopReq
      /\ pc' = [pc EXCEPT !["env"] = "e1"]
      /\ UNCHANGED << stop, graceful, chStopReady, chScanned, clScanned, 
                      chQueued, clQueued, chTransmit, clTransmit, 
                      chTransmitted, clTransmitted, chValidate, clValidate, 
                      chRetry, clRetry, chStats, clStats, wgScanned, wgQueued, 
                      wgFailed, wgTransmit, wgTransmitted, wgStats, wgValidate, 
                      wgValidated, found, Q, doneF, failedF, dropped, faults, 
                      fails, started, returned, new, inOpen, nxt, cur, pl, 
                      progress, tin, poll, vin, cf, rf >>

e1 == /\ pc["env"] = "e1"
      /\ IF stopReq = "none"
            THEN /\ \/ /\ started
                       /\ stopReq' = "graceful"
                    \/ /\ started
                       /\ stopReq' = "now"
                    \/ /\ TRUE
                       /\ UNCHANGED stopReq
            ELSE /\ TRUE
                 /\ UNCHANGED stopReq
      /\ pc' = [pc EXCEPT !["env"] = "Done"]
      /\ UNCHANGED << stop, graceful, chStopReady, chScanned, clScanned, 
                      chQueued, clQueued, chTransmit, clTransmit, 
                      chTransmitted, clTransmitted, chValidate, clValidate, 
                      chRetry, clRetry, chStats, clStats, wgScanned, wgQueued, 
                      wgFailed, wgTransmit, wgTransmitted, wgStats, wgValidate, 
                      wgValidated, found, Q, doneF, failedF, dropped, faults, 
                      fails, started, returned, new, inOpen, nxt, cur, pl, 
                      progress, tin, poll, vin, cf, rf >>

env == e0 \/ e1

p0 == /\ pc["stopper"] = "p0"
      /\ stopReq # "none"
      /\ /\ graceful' = (stopReq = "graceful")
         /\ stop' = TRUE
      /\ pc' = [pc EXCEPT !["stopper"] = "p1"]
      /\ UNCHANGED << stopReq, chStopReady, chScanned, clScanned, chQueued, 
                      clQueued, chTransmit, clTransmit, chTransmitted, 
                      clTransmitted, chValidate, clValidate, chRetry, clRetry, 
                      chStats, clStats, wgScanned, wgQueued, wgFailed, 
                      wgTransmit, wgTransmitted, wgStats, wgValidate, 
                      wgValidated, found, Q, doneF, failedF, dropped, faults, 
                      fails, started, returned, new, inOpen, nxt, cur, pl, 
                      progress, tin, poll, vin, cf, rf >>

p1 == /\ pc["stopper"] = "p1"
      /\ chStopReady' = TRUE
      /\ pc' = [pc EXCEPT !["stopper"] = "Done"]
      /\ UNCHANGED << stopReq, stop, graceful, chScanned, clScanned, chQueued, 
                      clQueued, chTransmit, clTransmit, chTransmitted, 
                      clTransmitted, chValidate, clValidate, chRetry, clRetry, 
                      chStats, clStats, wgScanned, wgQueued, wgFailed, 
                      wgTransmit, wgTransmitted, wgStats, wgValidate, 
                      wgValidated, found, Q, doneF, failedF, dropped, faults, 
                      fails, started, returned, new, inOpen, nxt, cur, pl, 
                      progress, tin, poll, vin, cf, rf >>

stopper == p0 \/ p1

m0 == /\ pc["main"] = "m0"
      /\ IF StopNow
            THEN /\ returned' = TRUE
                 /\ pc' = [pc EXCEPT !["main"] = "mEnd"]
                 /\ UNCHANGED started
            ELSE /\ started' = TRUE
                 /\ pc' = [pc EXCEPT !["main"] = "m1"]
                 /\ UNCHANGED returned
      /\ UNCHANGED << stopReq, stop, graceful, chStopReady, chScanned, 
                      clScanned, chQueued, clQueued, chTransmit, clTransmit, 
                      chTransmitted, clTransmitted, chValidate, clValidate, 
                      chRetry, clRetry, chStats, clStats, wgScanned, wgQueued, 
                      wgFailed, wgTransmit, wgTransmitted, wgStats, wgValidate, 
                      wgValidated, found, Q, doneF, failedF, dropped, faults, 
                      fails, new, inOpen, nxt, cur, pl, progress, tin, poll, 
                      vin, cf, rf >>

m1 == /\ pc["main"] = "m1"
      /\ wgScanned = 0
      /\ pc' = [pc EXCEPT !["main"] = "m2"]
      /\ UNCHANGED << stopReq, stop, graceful, chStopReady, chScanned, 
                      clScanned, chQueued, clQueued, chTransmit, clTransmit, 
                      chTransmitted, clTransmitted, chValidate, clValidate, 
                      chRetry, clRetry, chStats, clStats, wgScanned, wgQueued, 
                      wgFailed, wgTransmit, wgTransmitted, wgStats, wgValidate, 
                      wgValidated, found, Q, doneF, failedF, dropped, faults, 
                      fails, started, returned, new, inOpen, nxt, cur, pl, 
                      progress, tin, poll, vin, cf, rf >>

m2 == /\ pc["main"] = "m2"
      /\ wgFailed = 0
      /\ clScanned' = TRUE
      /\ pc' = [pc EXCEPT !["main"] = "m3"]
      /\ UNCHANGED << stopReq, stop, graceful, chStopReady, chScanned, 
                      chQueued, clQueued, chTransmit, clTransmit, 
                      chTransmitted, clTransmitted, chValidate, clValidate, 
                      chRetry, clRetry, chStats, clStats, wgScanned, wgQueued, 
                      wgFailed, wgTransmit, wgTransmitted, wgStats, wgValidate, 
                      wgValidated, found, Q, doneF, failedF, dropped, faults, 
                      fails, started, returned, new, inOpen, nxt, cur, pl, 
                      progress, tin, poll, vin, cf, rf >>

m3 == /\ pc["main"] = "m3"
      /\ wgQueued = 0
      /\ clQueued' = TRUE
      /\ pc' = [pc EXCEPT !["main"] = "m4"]
      /\ UNCHANGED << stopReq, stop, graceful, chStopReady, chScanned, 
                      clScanned, chQueued, chTransmit, clTransmit, 
                      chTransmitted, clTransmitted, chValidate, clValidate, 
                      chRetry, clRetry, chStats, clStats, wgScanned, wgQueued, 
                      wgFailed, wgTransmit, wgTransmitted, wgStats, wgValidate, 
                      wgValidated, found, Q, doneF, failedF, dropped, faults, 
                      fails, started, returned, new, inOpen, nxt, cur, pl, 
                      progress, tin, poll, vin, cf, rf >>

m4 == /\ pc["main"] = "m4"
      /\ wgTransmit = 0
      /\ clTransmit' = TRUE
      /\ pc' = [pc EXCEPT !["main"] = "m5"]
      /\ UNCHANGED << stopReq, stop, graceful, chStopReady, chScanned, 
                      clScanned, chQueued, clQueued, chTransmit, chTransmitted, 
                      clTransmitted, chValidate, clValidate, chRetry, clRetry, 
                      chStats, clStats, wgScanned, wgQueued, wgFailed, 
                      wgTransmit, wgTransmitted, wgStats, wgValidate, 
                      wgValidated, found, Q, doneF, failedF, dropped, faults, 
                      fails, started, returned, new, inOpen, nxt, cur, pl, 
                      progress, tin, poll, vin, cf, rf >>

m5 == /\ pc["main"] = "m5"
      /\ wgTransmitted = 0
      /\ clTransmitted' = TRUE
      /\ pc' = [pc EXCEPT !["main"] = "m6"]
      /\ UNCHANGED << stopReq, stop, graceful, chStopReady, chScanned, 
                      clScanned, chQueued, clQueued, chTransmit, clTransmit, 
                      chTransmitted, chValidate, clValidate, chRetry, clRetry, 
                      chStats, clStats, wgScanned, wgQueued, wgFailed, 
                      wgTransmit, wgTransmitted, wgStats, wgValidate, 
                      wgValidated, found, Q, doneF, failedF, dropped, faults, 
                      fails, started, returned, new, inOpen, nxt, cur, pl, 
                      progress, tin, poll, vin, cf, rf >>

m6 == /\ pc["main"] = "m6"
      /\ wgValidate = 0
      /\ /\ clStats' = TRUE
         /\ clValidate' = TRUE
      /\ pc' = [pc EXCEPT !["main"] = "m7"]
      /\ UNCHANGED << stopReq, stop, graceful, chStopReady, chScanned, 
                      clScanned, chQueued, clQueued, chTransmit, clTransmit, 
                      chTransmitted, clTransmitted, chValidate, chRetry, 
                      clRetry, chStats, wgScanned, wgQueued, wgFailed, 
                      wgTransmit, wgTransmitted, wgStats, wgValidate, 
                      wgValidated, found, Q, doneF, failedF, dropped, faults, 
                      fails, started, returned, new, inOpen, nxt, cur, pl, 
                      progress, tin, poll, vin, cf, rf >>

m7 == /\ pc["main"] = "m7"
      /\ wgStats = 0
      /\ pc' = [pc EXCEPT !["main"] = "m8"]
      /\ UNCHANGED << stopReq, stop, graceful, chStopReady, chScanned, 
                      clScanned, chQueued, clQueued, chTransmit, clTransmit, 
                      chTransmitted, clTransmitted, chValidate, clValidate, 
                      chRetry, clRetry, chStats, clStats, wgScanned, wgQueued, 
                      wgFailed, wgTransmit, wgTransmitted, wgStats, wgValidate, 
                      wgValidated, found, Q, doneF, failedF, dropped, faults, 
                      fails, started, returned, new, inOpen, nxt, cur, pl, 
                      progress, tin, poll, vin, cf, rf >>

m8 == /\ pc["main"] = "m8"
      /\ wgValidated = 0
      /\ clRetry' = TRUE
      /\ pc' = [pc EXCEPT !["main"] = "m9"]
      /\ UNCHANGED << stopReq, stop, graceful, chStopReady, chScanned, 
                      clScanned, chQueued, clQueued, chTransmit, clTransmit, 
                      chTransmitted, clTransmitted, chValidate, clValidate, 
                      chRetry, chStats, clStats, wgScanned, wgQueued, wgFailed, 
                      wgTransmit, wgTransmitted, wgStats, wgValidate, 
                      wgValidated, found, Q, doneF, failedF, dropped, faults, 
                      fails, started, returned, new, inOpen, nxt, cur, pl, 
                      progress, tin, poll, vin, cf, rf >>

m9 == /\ pc["main"] = "m9"
      /\ wgFailed = 0
      /\ returned' = TRUE
      /\ pc' = [pc EXCEPT !["main"] = "mEnd"]
      /\ UNCHANGED << stopReq, stop, graceful, chStopReady, chScanned, 
                      clScanned, chQueued, clQueued, chTransmit, clTransmit, 
                      chTransmitted, clTransmitted, chValidate, clValidate, 
                      chRetry, clRetry, chStats, clStats, wgScanned, wgQueued, 
                      wgFailed, wgTransmit, wgTransmitted, wgStats, wgValidate, 
                      wgValidated, found, Q, doneF, failedF, dropped, faults, 
                      fails, started, new, inOpen, nxt, cur, pl, progress, tin, 
                      poll, vin, cf, rf >>

mEnd == /\ pc["main"] = "mEnd"
        /\ TRUE
        /\ pc' = [pc EXCEPT !["main"] = "Done"]
        /\ UNCHANGED << stopReq, stop, graceful, chStopReady, chScanned, 
                        clScanned, chQueued, clQueued, chTransmit, clTransmit, 
                        chTransmitted, clTransmitted, chValidate, clValidate, 
                        chRetry, clRetry, chStats, clStats, wgScanned, 
                        wgQueued, wgFailed, wgTransmit, wgTransmitted, wgStats, 
                        wgValidate, wgValidated, found, Q, doneF, failedF, 
                        dropped, faults, fails, started, returned, new, inOpen, 
                        nxt, cur, pl, progress, tin, poll, vin, cf, rf >>

main == m0 \/ m1 \/ m2 \/ m3 \/ m4 \/ m5 \/ m6 \/ m7 \/ m8 \/ m9 \/ mEnd

s0 == /\ pc["scanner"] = "s0"
      /\ started
      /\ pc' = [pc EXCEPT !["scanner"] = "s1"]
      /\ UNCHANGED << stopReq, stop, graceful, chStopReady, chScanned, 
                      clScanned, chQueued, clQueued, chTransmit, clTransmit, 
                      chTransmitted, clTransmitted, chValidate, clValidate, 
                      chRetry, clRetry, chStats, clStats, wgScanned, wgQueued, 
                      wgFailed, wgTransmit, wgTransmitted, wgStats, wgValidate, 
                      wgValidated, found, Q, doneF, failedF, dropped, faults, 
                      fails, started, returned, new, inOpen, nxt, cur, pl, 
                      progress, tin, poll, vin, cf, rf >>

s1 == /\ pc["scanner"] = "s1"
      /\ new' = Files \ found
      /\ found' = (found \cup new')
      /\ pc' = [pc EXCEPT !["scanner"] = "s2"]
      /\ UNCHANGED << stopReq, stop, graceful, chStopReady, chScanned, 
                      clScanned, chQueued, clQueued, chTransmit, clTransmit, 
                      chTransmitted, clTransmitted, chValidate, clValidate, 
                      chRetry, clRetry, chStats, clStats, wgScanned, wgQueued, 
                      wgFailed, wgTransmit, wgTransmitted, wgStats, wgValidate, 
                      wgValidated, Q, doneF, failedF, dropped, faults, fails, 
                      started, returned, inOpen, nxt, cur, pl, progress, tin, 
                      poll, vin, cf, rf >>

s2 == /\ pc["scanner"] = "s2"
      /\ IF new # {}
            THEN /\ \/ /\ Len(chScanned) < 1
                       /\ chScanned' = Append(chScanned, new)
                       /\ new' = {}
                       /\ pc' = [pc EXCEPT !["scanner"] = "s3"]
                    \/ /\ StopNow
                       /\ new' = {}
                       /\ pc' = [pc EXCEPT !["scanner"] = "sX"]
                       /\ UNCHANGED chScanned
            ELSE /\ pc' = [pc EXCEPT !["scanner"] = "s3"]
                 /\ UNCHANGED << chScanned, new >>
      /\ UNCHANGED << stopReq, stop, graceful, chStopReady, clScanned, 
                      chQueued, clQueued, chTransmit, clTransmit, 
                      chTransmitted, clTransmitted, chValidate, clValidate, 
                      chRetry, clRetry, chStats, clStats, wgScanned, wgQueued, 
                      wgFailed, wgTransmit, wgTransmitted, wgStats, wgValidate, 
                      wgValidated, found, Q, doneF, failedF, dropped, faults, 
                      fails, started, returned, inOpen, nxt, cur, pl, progress, 
                      tin, poll, vin, cf, rf >>

s3 == /\ pc["scanner"] = "s3"
      /\ \/ /\ chStopReady
            /\ pc' = [pc EXCEPT !["scanner"] = "sX"]
         \/ /\ ~chStopReady
            /\ pc' = [pc EXCEPT !["scanner"] = "s1"]
      /\ UNCHANGED << stopReq, stop, graceful, chStopReady, chScanned, 
                      clScanned, chQueued, clQueued, chTransmit, clTransmit, 
                      chTransmitted, clTransmitted, chValidate, clValidate, 
                      chRetry, clRetry, chStats, clStats, wgScanned, wgQueued, 
                      wgFailed, wgTransmit, wgTransmitted, wgStats, wgValidate, 
                      wgValidated, found, Q, doneF, failedF, dropped, faults, 
                      fails, started, returned, new, inOpen, nxt, cur, pl, 
                      progress, tin, poll, vin, cf, rf >>

sX == /\ pc["scanner"] = "sX"
      /\ wgScanned' = wgScanned - 1
      /\ pc' = [pc EXCEPT !["scanner"] = "Done"]
      /\ UNCHANGED << stopReq, stop, graceful, chStopReady, chScanned, 
                      clScanned, chQueued, clQueued, chTransmit, clTransmit, 
                      chTransmitted, clTransmitted, chValidate, clValidate, 
                      chRetry, clRetry, chStats, clStats, wgQueued, wgFailed, 
                      wgTransmit, wgTransmitted, wgStats, wgValidate, 
                      wgValidated, found, Q, doneF, failedF, dropped, faults, 
                      fails, started, returned, new, inOpen, nxt, cur, pl, 
                      progress, tin, poll, vin, cf, rf >>

scanner == s0 \/ s1 \/ s2 \/ s3 \/ sX

q0 == /\ pc["queue"] = "q0"
      /\ started
      /\ pc' = [pc EXCEPT !["queue"] = "q1"]
      /\ UNCHANGED << stopReq, stop, graceful, chStopReady, chScanned, 
                      clScanned, chQueued, clQueued, chTransmit, clTransmit, 
                      chTransmitted, clTransmitted, chValidate, clValidate, 
                      chRetry, clRetry, chStats, clStats, wgScanned, wgQueued, 
                      wgFailed, wgTransmit, wgTransmitted, wgStats, wgValidate, 
                      wgValidated, found, Q, doneF, failedF, dropped, faults, 
                      fails, started, returned, new, inOpen, nxt, cur, pl, 
                      progress, tin, poll, vin, cf, rf >>

q1 == /\ pc["queue"] = "q1"
      /\ \/ /\ chScanned # <<>>
            /\ Q' = (Q \cup Head(chScanned))
            /\ chScanned' = Tail(chScanned)
            /\ pc' = [pc EXCEPT !["queue"] = "q3"]
            /\ UNCHANGED <<inOpen, nxt>>
         \/ /\ inOpen /\ chScanned = <<>> /\ clScanned
            /\ IF StopNow
                  THEN /\ pc' = [pc EXCEPT !["queue"] = "qX"]
                       /\ UNCHANGED inOpen
                  ELSE /\ inOpen' = FALSE
                       /\ pc' = [pc EXCEPT !["queue"] = "q3"]
            /\ UNCHANGED <<chScanned, Q, nxt>>
         \/ /\ Q # {}
            /\ \E f \in Q:
                 /\ nxt' = f
                 /\ Q' = Q \ {f}
            /\ pc' = [pc EXCEPT !["queue"] = "q2"]
            /\ UNCHANGED <<chScanned, inOpen>>
         \/ /\ Q = {} /\ ~inOpen
            /\ pc' = [pc EXCEPT !["queue"] = "qX"]
            /\ UNCHANGED <<chScanned, Q, inOpen, nxt>>
      /\ UNCHANGED << stopReq, stop, graceful, chStopReady, clScanned, 
                      chQueued, clQueued, chTransmit, clTransmit, 
                      chTransmitted, clTransmitted, chValidate, clValidate, 
                      chRetry, clRetry, chStats, clStats, wgScanned, wgQueued, 
                      wgFailed, wgTransmit, wgTransmitted, wgStats, wgValidate, 
                      wgValidated, found, doneF, failedF, dropped, faults, 
                      fails, started, returned, new, cur, pl, progress, tin, 
                      poll, vin, cf, rf >>

q2 == /\ pc["queue"] = "q2"
      /\ \/ /\ Len(chQueued) < Cap
            /\ chQueued' = Append(chQueued, nxt)
            /\ nxt' = "none"
            /\ pc' = [pc EXCEPT !["queue"] = "q3"]
         \/ /\ StopNow
            /\ nxt' = "none"
            /\ pc' = [pc EXCEPT !["queue"] = "qX"]
            /\ UNCHANGED chQueued
      /\ UNCHANGED << stopReq, stop, graceful, chStopReady, chScanned, 
                      clScanned, clQueued, chTransmit, clTransmit, 
                      chTransmitted, clTransmitted, chValidate, clValidate, 
                      chRetry, clRetry, chStats, clStats, wgScanned, wgQueued, 
                      wgFailed, wgTransmit, wgTransmitted, wgStats, wgValidate, 
                      wgValidated, found, Q, doneF, failedF, dropped, faults, 
                      fails, started, returned, new, inOpen, cur, pl, progress, 
                      tin, poll, vin, cf, rf >>

q3 == /\ pc["queue"] = "q3"
      /\ pc' = [pc EXCEPT !["queue"] = "q1"]
      /\ UNCHANGED << stopReq, stop, graceful, chStopReady, chScanned, 
                      clScanned, chQueued, clQueued, chTransmit, clTransmit, 
                      chTransmitted, clTransmitted, chValidate, clValidate, 
                      chRetry, clRetry, chStats, clStats, wgScanned, wgQueued, 
                      wgFailed, wgTransmit, wgTransmitted, wgStats, wgValidate, 
                      wgValidated, found, Q, doneF, failedF, dropped, faults, 
                      fails, started, returned, new, inOpen, nxt, cur, pl, 
                      progress, tin, poll, vin, cf, rf >>

qX == /\ pc["queue"] = "qX"
      /\ wgQueued' = wgQueued - 1
      /\ pc' = [pc EXCEPT !["queue"] = "Done"]
      /\ UNCHANGED << stopReq, stop, graceful, chStopReady, chScanned, 
                      clScanned, chQueued, clQueued, chTransmit, clTransmit, 
                      chTransmitted, clTransmitted, chValidate, clValidate, 
                      chRetry, clRetry, chStats, clStats, wgScanned, wgFailed, 
                      wgTransmit, wgTransmitted, wgStats, wgValidate, 
                      wgValidated, found, Q, doneF, failedF, dropped, faults, 
                      fails, started, returned, new, inOpen, nxt, cur, pl, 
                      progress, tin, poll, vin, cf, rf >>

queue == q0 \/ q1 \/ q2 \/ q3 \/ qX

b0 == /\ pc["binner"] = "b0"
      /\ started
      /\ pc' = [pc EXCEPT !["binner"] = "b1"]
      /\ UNCHANGED << stopReq, stop, graceful, chStopReady, chScanned, 
                      clScanned, chQueued, clQueued, chTransmit, clTransmit, 
                      chTransmitted, clTransmitted, chValidate, clValidate, 
                      chRetry, clRetry, chStats, clStats, wgScanned, wgQueued, 
                      wgFailed, wgTransmit, wgTransmitted, wgStats, wgValidate, 
                      wgValidated, found, Q, doneF, failedF, dropped, faults, 
                      fails, started, returned, new, inOpen, nxt, cur, pl, 
                      progress, tin, poll, vin, cf, rf >>

b1 == /\ pc["binner"] = "b1"
      /\ \/ /\ chQueued # <<>>
            /\ IF StopNow
                  THEN /\ chQueued' = Tail(chQueued)
                       /\ pc' = [pc EXCEPT !["binner"] = "bX"]
                       /\ cur' = cur
                  ELSE /\ cur' = Head(chQueued)
                       /\ chQueued' = Tail(chQueued)
                       /\ pc' = [pc EXCEPT !["binner"] = "b2"]
         \/ /\ chQueued = <<>> /\ clQueued
            /\ pc' = [pc EXCEPT !["binner"] = "bX"]
            /\ UNCHANGED <<chQueued, cur>>
      /\ UNCHANGED << stopReq, stop, graceful, chStopReady, chScanned, 
                      clScanned, clQueued, chTransmit, clTransmit, 
                      chTransmitted, clTransmitted, chValidate, clValidate, 
                      chRetry, clRetry, chStats, clStats, wgScanned, wgQueued, 
                      wgFailed, wgTransmit, wgTransmitted, wgStats, wgValidate, 
                      wgValidated, found, Q, doneF, failedF, dropped, faults, 
                      fails, started, returned, new, inOpen, nxt, pl, progress, 
                      tin, poll, vin, cf, rf >>

b2 == /\ pc["binner"] = "b2"
      /\ \/ /\ Len(chTransmit) < Cap
            /\ chTransmit' = Append(chTransmit, cur)
            /\ cur' = "none"
            /\ pc' = [pc EXCEPT !["binner"] = "b3"]
         \/ /\ StopNow
            /\ cur' = "none"
            /\ pc' = [pc EXCEPT !["binner"] = "bX"]
            /\ UNCHANGED chTransmit
      /\ UNCHANGED << stopReq, stop, graceful, chStopReady, chScanned, 
                      clScanned, chQueued, clQueued, clTransmit, chTransmitted, 
                      clTransmitted, chValidate, clValidate, chRetry, clRetry, 
                      chStats, clStats, wgScanned, wgQueued, wgFailed, 
                      wgTransmit, wgTransmitted, wgStats, wgValidate, 
                      wgValidated, found, Q, doneF, failedF, dropped, faults, 
                      fails, started, returned, new, inOpen, nxt, pl, progress, 
                      tin, poll, vin, cf, rf >>

b3 == /\ pc["binner"] = "b3"
      /\ pc' = [pc EXCEPT !["binner"] = "b1"]
      /\ UNCHANGED << stopReq, stop, graceful, chStopReady, chScanned, 
                      clScanned, chQueued, clQueued, chTransmit, clTransmit, 
                      chTransmitted, clTransmitted, chValidate, clValidate, 
                      chRetry, clRetry, chStats, clStats, wgScanned, wgQueued, 
                      wgFailed, wgTransmit, wgTransmitted, wgStats, wgValidate, 
                      wgValidated, found, Q, doneF, failedF, dropped, faults, 
                      fails, started, returned, new, inOpen, nxt, cur, pl, 
                      progress, tin, poll, vin, cf, rf >>

bX == /\ pc["binner"] = "bX"
      /\ wgTransmit' = wgTransmit - 1
      /\ pc' = [pc EXCEPT !["binner"] = "Done"]
      /\ UNCHANGED << stopReq, stop, graceful, chStopReady, chScanned, 
                      clScanned, chQueued, clQueued, chTransmit, clTransmit, 
                      chTransmitted, clTransmitted, chValidate, clValidate, 
                      chRetry, clRetry, chStats, clStats, wgScanned, wgQueued, 
                      wgFailed, wgTransmitted, wgStats, wgValidate, 
                      wgValidated, found, Q, doneF, failedF, dropped, faults, 
                      fails, started, returned, new, inOpen, nxt, cur, pl, 
                      progress, tin, poll, vin, cf, rf >>

binner == b0 \/ b1 \/ b2 \/ b3 \/ bX

x0(self) == /\ pc[self] = "x0"
            /\ started
            /\ pc' = [pc EXCEPT ![self] = "x1"]
            /\ UNCHANGED << stopReq, stop, graceful, chStopReady, chScanned, 
                            clScanned, chQueued, clQueued, chTransmit, 
                            clTransmit, chTransmitted, clTransmitted, 
                            chValidate, clValidate, chRetry, clRetry, chStats, 
                            clStats, wgScanned, wgQueued, wgFailed, wgTransmit, 
                            wgTransmitted, wgStats, wgValidate, wgValidated, 
                            found, Q, doneF, failedF, dropped, faults, fails, 
                            started, returned, new, inOpen, nxt, cur, pl, 
                            progress, tin, poll, vin, cf, rf >>

x1(self) == /\ pc[self] = "x1"
            /\ \/ /\ chTransmit # <<>>
                  /\ IF StopNow
                        THEN /\ chTransmit' = Tail(chTransmit)
                             /\ pc' = [pc EXCEPT ![self] = "xX"]
                             /\ pl' = pl
                        ELSE /\ pl' = [pl EXCEPT ![self] = Head(chTransmit)]
                             /\ chTransmit' = Tail(chTransmit)
                             /\ pc' = [pc EXCEPT ![self] = "x3"]
               \/ /\ chTransmit = <<>> /\ clTransmit
                  /\ pc' = [pc EXCEPT ![self] = "xX"]
                  /\ UNCHANGED <<chTransmit, pl>>
            /\ UNCHANGED << stopReq, stop, graceful, chStopReady, chScanned, 
                            clScanned, chQueued, clQueued, clTransmit, 
                            chTransmitted, clTransmitted, chValidate, 
                            clValidate, chRetry, clRetry, chStats, clStats, 
                            wgScanned, wgQueued, wgFailed, wgTransmit, 
                            wgTransmitted, wgStats, wgValidate, wgValidated, 
                            found, Q, doneF, failedF, dropped, faults, fails, 
                            started, returned, new, inOpen, nxt, cur, progress, 
                            tin, poll, vin, cf, rf >>

x3(self) == /\ pc[self] = "x3"
            /\ IF StopNow
                  THEN /\ pl' = [pl EXCEPT ![self] = "none"]
                       /\ pc' = [pc EXCEPT ![self] = "xX"]
                       /\ UNCHANGED << dropped, faults >>
                  ELSE /\ \/ /\ TRUE
                             /\ pc' = [pc EXCEPT ![self] = "x4"]
                             /\ UNCHANGED <<dropped, faults>>
                          \/ /\ faults > 0
                             /\ faults' = faults - 1
                             /\ pc' = [pc EXCEPT ![self] = "x3"]
                             /\ UNCHANGED dropped
                          \/ /\ DropParts /\ faults > 0 /\ pl[self] \notin dropped
                             /\ faults' = faults - 1
                             /\ dropped' = (dropped \cup {pl[self]})
                             /\ pc' = [pc EXCEPT ![self] = "x4"]
                       /\ pl' = pl
            /\ UNCHANGED << stopReq, stop, graceful, chStopReady, chScanned, 
                            clScanned, chQueued, clQueued, chTransmit, 
                            clTransmit, chTransmitted, clTransmitted, 
                            chValidate, clValidate, chRetry, clRetry, chStats, 
                            clStats, wgScanned, wgQueued, wgFailed, wgTransmit, 
                            wgTransmitted, wgStats, wgValidate, wgValidated, 
                            found, Q, doneF, failedF, fails, started, returned, 
                            new, inOpen, nxt, cur, progress, tin, poll, vin, 
                            cf, rf >>

x4(self) == /\ pc[self] = "x4"
            /\ ~clStats
            /\ chStats' = 1
            /\ pc' = [pc EXCEPT ![self] = "x5"]
            /\ UNCHANGED << stopReq, stop, graceful, chStopReady, chScanned, 
                            clScanned, chQueued, clQueued, chTransmit, 
                            clTransmit, chTransmitted, clTransmitted, 
                            chValidate, clValidate, chRetry, clRetry, clStats, 
                            wgScanned, wgQueued, wgFailed, wgTransmit, 
                            wgTransmitted, wgStats, wgValidate, wgValidated, 
                            found, Q, doneF, failedF, dropped, faults, fails, 
                            started, returned, new, inOpen, nxt, cur, pl, 
                            progress, tin, poll, vin, cf, rf >>

x5(self) == /\ pc[self] = "x5"
            /\ \/ /\ Len(chTransmitted) < Cap
                  /\ chTransmitted' = Append(chTransmitted, pl[self])
                  /\ pl' = [pl EXCEPT ![self] = "none"]
                  /\ pc' = [pc EXCEPT ![self] = "x1"]
               \/ /\ StopNow
                  /\ pl' = [pl EXCEPT ![self] = "none"]
                  /\ pc' = [pc EXCEPT ![self] = "xX"]
                  /\ UNCHANGED chTransmitted
            /\ UNCHANGED << stopReq, stop, graceful, chStopReady, chScanned, 
                            clScanned, chQueued, clQueued, chTransmit, 
                            clTransmit, clTransmitted, chValidate, clValidate, 
                            chRetry, clRetry, chStats, clStats, wgScanned, 
                            wgQueued, wgFailed, wgTransmit, wgTransmitted, 
                            wgStats, wgValidate, wgValidated, found, Q, doneF, 
                            failedF, dropped, faults, fails, started, returned, 
                            new, inOpen, nxt, cur, progress, tin, poll, vin, 
                            cf, rf >>

xX(self) == /\ pc[self] = "xX"
            /\ wgTransmitted' = wgTransmitted - 1
            /\ pc' = [pc EXCEPT ![self] = "Done"]
            /\ UNCHANGED << stopReq, stop, graceful, chStopReady, chScanned, 
                            clScanned, chQueued, clQueued, chTransmit, 
                            clTransmit, chTransmitted, clTransmitted, 
                            chValidate, clValidate, chRetry, clRetry, chStats, 
                            clStats, wgScanned, wgQueued, wgFailed, wgTransmit, 
                            wgStats, wgValidate, wgValidated, found, Q, doneF, 
                            failedF, dropped, faults, fails, started, returned, 
                            new, inOpen, nxt, cur, pl, progress, tin, poll, 
                            vin, cf, rf >>

sender(self) == x0(self) \/ x1(self) \/ x3(self) \/ x4(self) \/ x5(self)
                   \/ xX(self)

z0 == /\ pc["stats"] = "z0"
      /\ started
      /\ pc' = [pc EXCEPT !["stats"] = "z1"]
      /\ UNCHANGED << stopReq, stop, graceful, chStopReady, chScanned, 
                      clScanned, chQueued, clQueued, chTransmit, clTransmit, 
                      chTransmitted, clTransmitted, chValidate, clValidate, 
                      chRetry, clRetry, chStats, clStats, wgScanned, wgQueued, 
                      wgFailed, wgTransmit, wgTransmitted, wgStats, wgValidate, 
                      wgValidated, found, Q, doneF, failedF, dropped, faults, 
                      fails, started, returned, new, inOpen, nxt, cur, pl, 
                      progress, tin, poll, vin, cf, rf >>

z1 == /\ pc["stats"] = "z1"
      /\ \/ /\ chStats > 0
            /\ chStats' = 0
            /\ pc' = [pc EXCEPT !["stats"] = "z1"]
         \/ /\ chStats = 0 /\ clStats
            /\ pc' = [pc EXCEPT !["stats"] = "zX"]
            /\ UNCHANGED chStats
      /\ UNCHANGED << stopReq, stop, graceful, chStopReady, chScanned, 
                      clScanned, chQueued, clQueued, chTransmit, clTransmit, 
                      chTransmitted, clTransmitted, chValidate, clValidate, 
                      chRetry, clRetry, clStats, wgScanned, wgQueued, wgFailed, 
                      wgTransmit, wgTransmitted, wgStats, wgValidate, 
                      wgValidated, found, Q, doneF, failedF, dropped, faults, 
                      fails, started, returned, new, inOpen, nxt, cur, pl, 
                      progress, tin, poll, vin, cf, rf >>

zX == /\ pc["stats"] = "zX"
      /\ wgStats' = wgStats - 1
      /\ pc' = [pc EXCEPT !["stats"] = "Done"]
      /\ UNCHANGED << stopReq, stop, graceful, chStopReady, chScanned, 
                      clScanned, chQueued, clQueued, chTransmit, clTransmit, 
                      chTransmitted, clTransmitted, chValidate, clValidate, 
                      chRetry, clRetry, chStats, clStats, wgScanned, wgQueued, 
                      wgFailed, wgTransmit, wgTransmitted, wgValidate, 
                      wgValidated, found, Q, doneF, failedF, dropped, faults, 
                      fails, started, returned, new, inOpen, nxt, cur, pl, 
                      progress, tin, poll, vin, cf, rf >>

stats == z0 \/ z1 \/ zX

t0 == /\ pc["tracker"] = "t0"
      /\ started
      /\ pc' = [pc EXCEPT !["tracker"] = "t1"]
      /\ UNCHANGED << stopReq, stop, graceful, chStopReady, chScanned, 
                      clScanned, chQueued, clQueued, chTransmit, clTransmit, 
                      chTransmitted, clTransmitted, chValidate, clValidate, 
                      chRetry, clRetry, chStats, clStats, wgScanned, wgQueued, 
                      wgFailed, wgTransmit, wgTransmitted, wgStats, wgValidate, 
                      wgValidated, found, Q, doneF, failedF, dropped, faults, 
                      fails, started, returned, new, inOpen, nxt, cur, pl, 
                      progress, tin, poll, vin, cf, rf >>

t1 == /\ pc["tracker"] = "t1"
      /\ IF StopNow
            THEN /\ pc' = [pc EXCEPT !["tracker"] = "tX"]
                 /\ UNCHANGED progress
            ELSE /\ IF (IF ~tin /\ ~KF_S17 THEN progress \ dropped ELSE progress) = {} /\ ~tin
                       THEN /\ pc' = [pc EXCEPT !["tracker"] = "tX"]
                            /\ UNCHANGED progress
                       ELSE /\ progress' = (IF ~tin /\ ~KF_S17 THEN progress \ dropped ELSE progress)
                            /\ pc' = [pc EXCEPT !["tracker"] = "t2"]
      /\ UNCHANGED << stopReq, stop, graceful, chStopReady, chScanned, 
                      clScanned, chQueued, clQueued, chTransmit, clTransmit, 
                      chTransmitted, clTransmitted, chValidate, clValidate, 
                      chRetry, clRetry, chStats, clStats, wgScanned, wgQueued, 
                      wgFailed, wgTransmit, wgTransmitted, wgStats, wgValidate, 
                      wgValidated, found, Q, doneF, failedF, dropped, faults, 
                      fails, started, returned, new, inOpen, nxt, cur, pl, tin, 
                      poll, vin, cf, rf >>

t2 == /\ pc["tracker"] = "t2"
      /\ LET k == Min(Cardinality(progress \ dropped), Cap - Len(chValidate)) IN
           \E S \in { T \in SUBSET (progress \ dropped) : Cardinality(T) = k }:
             /\ chValidate' = chValidate \o SeqOf(S)
             /\ progress' = progress \ S
             /\ IF progress' \ S = {} /\ ~tin /\ ~KF_S27
                   THEN /\ pc' = [pc EXCEPT !["tracker"] = "tX"]
                   ELSE /\ pc' = [pc EXCEPT !["tracker"] = "t3"]
      /\ UNCHANGED << stopReq, stop, graceful, chStopReady, chScanned, 
                      clScanned, chQueued, clQueued, chTransmit, clTransmit, 
                      chTransmitted, clTransmitted, clValidate, chRetry, 
                      clRetry, chStats, clStats, wgScanned, wgQueued, wgFailed, 
                      wgTransmit, wgTransmitted, wgStats, wgValidate, 
                      wgValidated, found, Q, doneF, failedF, dropped, faults, 
                      fails, started, returned, new, inOpen, nxt, cur, pl, tin, 
                      poll, vin, cf, rf >>

t3 == /\ pc["tracker"] = "t3"
      /\ \/ /\ tin /\ chTransmitted # <<>>
            /\ progress' = (progress \cup {Head(chTransmitted)})
            /\ chTransmitted' = Tail(chTransmitted)
            /\ tin' = tin
         \/ /\ tin /\ chTransmitted = <<>> /\ clTransmitted
            /\ tin' = FALSE
            /\ UNCHANGED <<chTransmitted, progress>>
         \/ /\ progress # {}
            /\ TRUE
            /\ UNCHANGED <<chTransmitted, progress, tin>>
      /\ pc' = [pc EXCEPT !["tracker"] = "t4"]
      /\ UNCHANGED << stopReq, stop, graceful, chStopReady, chScanned, 
                      clScanned, chQueued, clQueued, chTransmit, clTransmit, 
                      clTransmitted, chValidate, clValidate, chRetry, clRetry, 
                      chStats, clStats, wgScanned, wgQueued, wgFailed, 
                      wgTransmit, wgTransmitted, wgStats, wgValidate, 
                      wgValidated, found, Q, doneF, failedF, dropped, faults, 
                      fails, started, returned, new, inOpen, nxt, cur, pl, 
                      poll, vin, cf, rf >>

t4 == /\ pc["tracker"] = "t4"
      /\ pc' = [pc EXCEPT !["tracker"] = "t1"]
      /\ UNCHANGED << stopReq, stop, graceful, chStopReady, chScanned, 
                      clScanned, chQueued, clQueued, chTransmit, clTransmit, 
                      chTransmitted, clTransmitted, chValidate, clValidate, 
                      chRetry, clRetry, chStats, clStats, wgScanned, wgQueued, 
                      wgFailed, wgTransmit, wgTransmitted, wgStats, wgValidate, 
                      wgValidated, found, Q, doneF, failedF, dropped, faults, 
                      fails, started, returned, new, inOpen, nxt, cur, pl, 
                      progress, tin, poll, vin, cf, rf >>

tX == /\ pc["tracker"] = "tX"
      /\ wgValidate' = wgValidate - 1
      /\ pc' = [pc EXCEPT !["tracker"] = "Done"]
      /\ UNCHANGED << stopReq, stop, graceful, chStopReady, chScanned, 
                      clScanned, chQueued, clQueued, chTransmit, clTransmit, 
                      chTransmitted, clTransmitted, chValidate, clValidate, 
                      chRetry, clRetry, chStats, clStats, wgScanned, wgQueued, 
                      wgFailed, wgTransmit, wgTransmitted, wgStats, 
                      wgValidated, found, Q, doneF, failedF, dropped, faults, 
                      fails, started, returned, new, inOpen, nxt, cur, pl, 
                      progress, tin, poll, vin, cf, rf >>

tracker == t0 \/ t1 \/ t2 \/ t3 \/ t4 \/ tX

v0 == /\ pc["validator"] = "v0"
      /\ started
      /\ pc' = [pc EXCEPT !["validator"] = "v1"]
      /\ UNCHANGED << stopReq, stop, graceful, chStopReady, chScanned, 
                      clScanned, chQueued, clQueued, chTransmit, clTransmit, 
                      chTransmitted, clTransmitted, chValidate, clValidate, 
                      chRetry, clRetry, chStats, clStats, wgScanned, wgQueued, 
                      wgFailed, wgTransmit, wgTransmitted, wgStats, wgValidate, 
                      wgValidated, found, Q, doneF, failedF, dropped, faults, 
                      fails, started, returned, new, inOpen, nxt, cur, pl, 
                      progress, tin, poll, vin, cf, rf >>

v1 == /\ pc["validator"] = "v1"
      /\ IF StopNow
            THEN /\ pc' = [pc EXCEPT !["validator"] = "vX"]
            ELSE /\ IF poll = {} /\ ~vin
                       THEN /\ pc' = [pc EXCEPT !["validator"] = "vX"]
                       ELSE /\ pc' = [pc EXCEPT !["validator"] = "v2"]
      /\ UNCHANGED << stopReq, stop, graceful, chStopReady, chScanned, 
                      clScanned, chQueued, clQueued, chTransmit, clTransmit, 
                      chTransmitted, clTransmitted, chValidate, clValidate, 
                      chRetry, clRetry, chStats, clStats, wgScanned, wgQueued, 
                      wgFailed, wgTransmit, wgTransmitted, wgStats, wgValidate, 
                      wgValidated, found, Q, doneF, failedF, dropped, faults, 
                      fails, started, returned, new, inOpen, nxt, cur, pl, 
                      progress, tin, poll, vin, cf, rf >>

v2 == /\ pc["validator"] = "v2"
      /\ \/ /\ vin /\ chValidate # <<>>
            /\ poll' = (poll \cup {Head(chValidate)})
            /\ chValidate' = Tail(chValidate)
            /\ vin' = vin
         \/ /\ vin /\ chValidate = <<>> /\ clValidate
            /\ vin' = FALSE
            /\ UNCHANGED <<chValidate, poll>>
         \/ /\ poll # {}
            /\ TRUE
            /\ UNCHANGED <<chValidate, poll, vin>>
      /\ pc' = [pc EXCEPT !["validator"] = "v3"]
      /\ UNCHANGED << stopReq, stop, graceful, chStopReady, chScanned, 
                      clScanned, chQueued, clQueued, chTransmit, clTransmit, 
                      chTransmitted, clTransmitted, clValidate, chRetry, 
                      clRetry, chStats, clStats, wgScanned, wgQueued, wgFailed, 
                      wgTransmit, wgTransmitted, wgStats, wgValidate, 
                      wgValidated, found, Q, doneF, failedF, dropped, faults, 
                      fails, started, returned, new, inOpen, nxt, cur, pl, 
                      progress, tin, cf, rf >>

v3 == /\ pc["validator"] = "v3"
      /\ IF poll = {}
            THEN /\ pc' = [pc EXCEPT !["validator"] = "v1"]
            ELSE /\ IF StopNow
                       THEN /\ pc' = [pc EXCEPT !["validator"] = "vX"]
                       ELSE /\ pc' = [pc EXCEPT !["validator"] = "v5"]
      /\ UNCHANGED << stopReq, stop, graceful, chStopReady, chScanned, 
                      clScanned, chQueued, clQueued, chTransmit, clTransmit, 
                      chTransmitted, clTransmitted, chValidate, clValidate, 
                      chRetry, clRetry, chStats, clStats, wgScanned, wgQueued, 
                      wgFailed, wgTransmit, wgTransmitted, wgStats, wgValidate, 
                      wgValidated, found, Q, doneF, failedF, dropped, faults, 
                      fails, started, returned, new, inOpen, nxt, cur, pl, 
                      progress, tin, poll, vin, cf, rf >>

v5 == /\ pc["validator"] = "v5"
      /\ \/ /\ faults > 0
            /\ faults' = faults - 1
            /\ pc' = [pc EXCEPT !["validator"] = "v3"]
            /\ UNCHANGED <<doneF, failedF, fails, poll, cf>>
         \/ /\ \E f \in poll:
                 /\ poll' = poll \ {f}
                 /\ \/ /\ doneF' = (doneF \cup {f})
                       /\ pc' = [pc EXCEPT !["validator"] = "v1"]
                       /\ UNCHANGED <<failedF, fails, cf>>
                    \/ /\ fails > 0
                       /\ fails' = fails - 1
                       /\ failedF' = (failedF \cup {f})
                       /\ cf' = f
                       /\ pc' = [pc EXCEPT !["validator"] = "v8"]
                       /\ doneF' = doneF
            /\ UNCHANGED faults
      /\ UNCHANGED << stopReq, stop, graceful, chStopReady, chScanned, 
                      clScanned, chQueued, clQueued, chTransmit, clTransmit, 
                      chTransmitted, clTransmitted, chValidate, clValidate, 
                      chRetry, clRetry, chStats, clStats, wgScanned, wgQueued, 
                      wgFailed, wgTransmit, wgTransmitted, wgStats, wgValidate, 
                      wgValidated, found, Q, dropped, started, returned, new, 
                      inOpen, nxt, cur, pl, progress, tin, vin, rf >>

v8 == /\ pc["validator"] = "v8"
      /\ \/ /\ Len(chRetry) < Cap
            /\ chRetry' = Append(chRetry, cf)
            /\ cf' = "none"
         \/ /\ stop
            /\ cf' = "none"
            /\ UNCHANGED chRetry
      /\ pc' = [pc EXCEPT !["validator"] = "v9"]
      /\ UNCHANGED << stopReq, stop, graceful, chStopReady, chScanned, 
                      clScanned, chQueued, clQueued, chTransmit, clTransmit, 
                      chTransmitted, clTransmitted, chValidate, clValidate, 
                      clRetry, chStats, clStats, wgScanned, wgQueued, wgFailed, 
                      wgTransmit, wgTransmitted, wgStats, wgValidate, 
                      wgValidated, found, Q, doneF, failedF, dropped, faults, 
                      fails, started, returned, new, inOpen, nxt, cur, pl, 
                      progress, tin, poll, vin, rf >>

v9 == /\ pc["validator"] = "v9"
      /\ pc' = [pc EXCEPT !["validator"] = "v1"]
      /\ UNCHANGED << stopReq, stop, graceful, chStopReady, chScanned, 
                      clScanned, chQueued, clQueued, chTransmit, clTransmit, 
                      chTransmitted, clTransmitted, chValidate, clValidate, 
                      chRetry, clRetry, chStats, clStats, wgScanned, wgQueued, 
                      wgFailed, wgTransmit, wgTransmitted, wgStats, wgValidate, 
                      wgValidated, found, Q, doneF, failedF, dropped, faults, 
                      fails, started, returned, new, inOpen, nxt, cur, pl, 
                      progress, tin, poll, vin, cf, rf >>

vX == /\ pc["validator"] = "vX"
      /\ wgValidated' = wgValidated - 1
      /\ pc' = [pc EXCEPT !["validator"] = "Done"]
      /\ UNCHANGED << stopReq, stop, graceful, chStopReady, chScanned, 
                      clScanned, chQueued, clQueued, chTransmit, clTransmit, 
                      chTransmitted, clTransmitted, chValidate, clValidate, 
                      chRetry, clRetry, chStats, clStats, wgScanned, wgQueued, 
                      wgFailed, wgTransmit, wgTransmitted, wgStats, wgValidate, 
                      found, Q, doneF, failedF, dropped, faults, fails, 
                      started, returned, new, inOpen, nxt, cur, pl, progress, 
                      tin, poll, vin, cf, rf >>

validator == v0 \/ v1 \/ v2 \/ v3 \/ v5 \/ v8 \/ v9 \/ vX

r0(self) == /\ pc[self] = "r0"
            /\ started
            /\ pc' = [pc EXCEPT ![self] = "r1"]
            /\ UNCHANGED << stopReq, stop, graceful, chStopReady, chScanned, 
                            clScanned, chQueued, clQueued, chTransmit, 
                            clTransmit, chTransmitted, clTransmitted, 
                            chValidate, clValidate, chRetry, clRetry, chStats, 
                            clStats, wgScanned, wgQueued, wgFailed, wgTransmit, 
                            wgTransmitted, wgStats, wgValidate, wgValidated, 
                            found, Q, doneF, failedF, dropped, faults, fails, 
                            started, returned, new, inOpen, nxt, cur, pl, 
                            progress, tin, poll, vin, cf, rf >>

r1(self) == /\ pc[self] = "r1"
            /\ \/ /\ chRetry # <<>>
                  /\ rf' = [rf EXCEPT ![self] = Head(chRetry)]
                  /\ chRetry' = Tail(chRetry)
                  /\ pc' = [pc EXCEPT ![self] = "r2"]
               \/ /\ chRetry = <<>> /\ clRetry
                  /\ pc' = [pc EXCEPT ![self] = "rX"]
                  /\ UNCHANGED <<chRetry, rf>>
               \/ /\ stop
                  /\ pc' = [pc EXCEPT ![self] = "rX"]
                  /\ UNCHANGED <<chRetry, rf>>
            /\ UNCHANGED << stopReq, stop, graceful, chStopReady, chScanned, 
                            clScanned, chQueued, clQueued, chTransmit, 
                            clTransmit, chTransmitted, clTransmitted, 
                            chValidate, clValidate, clRetry, chStats, clStats, 
                            wgScanned, wgQueued, wgFailed, wgTransmit, 
                            wgTransmitted, wgStats, wgValidate, wgValidated, 
                            found, Q, doneF, failedF, dropped, faults, fails, 
                            started, returned, new, inOpen, nxt, cur, pl, 
                            progress, tin, poll, vin, cf >>

r2(self) == /\ pc[self] = "r2"
            /\ \/ /\ Len(chScanned) < 1
                  /\ chScanned' = Append(chScanned, {rf[self]})
                  /\ rf' = [rf EXCEPT ![self] = "none"]
                  /\ pc' = [pc EXCEPT ![self] = "r3"]
               \/ /\ stop
                  /\ rf' = [rf EXCEPT ![self] = "none"]
                  /\ pc' = [pc EXCEPT ![self] = "rX"]
                  /\ UNCHANGED chScanned
            /\ UNCHANGED << stopReq, stop, graceful, chStopReady, clScanned, 
                            chQueued, clQueued, chTransmit, clTransmit, 
                            chTransmitted, clTransmitted, chValidate, 
                            clValidate, chRetry, clRetry, chStats, clStats, 
                            wgScanned, wgQueued, wgFailed, wgTransmit, 
                            wgTransmitted, wgStats, wgValidate, wgValidated, 
                            found, Q, doneF, failedF, dropped, faults, fails, 
                            started, returned, new, inOpen, nxt, cur, pl, 
                            progress, tin, poll, vin, cf >>

r3(self) == /\ pc[self] = "r3"
            /\ pc' = [pc EXCEPT ![self] = "r1"]
            /\ UNCHANGED << stopReq, stop, graceful, chStopReady, chScanned, 
                            clScanned, chQueued, clQueued, chTransmit, 
                            clTransmit, chTransmitted, clTransmitted, 
                            chValidate, clValidate, chRetry, clRetry, chStats, 
                            clStats, wgScanned, wgQueued, wgFailed, wgTransmit, 
                            wgTransmitted, wgStats, wgValidate, wgValidated, 
                            found, Q, doneF, failedF, dropped, faults, fails, 
                            started, returned, new, inOpen, nxt, cur, pl, 
                            progress, tin, poll, vin, cf, rf >>

rX(self) == /\ pc[self] = "rX"
            /\ wgFailed' = wgFailed - 1
            /\ pc' = [pc EXCEPT ![self] = "Done"]
            /\ UNCHANGED << stopReq, stop, graceful, chStopReady, chScanned, 
                            clScanned, chQueued, clQueued, chTransmit, 
                            clTransmit, chTransmitted, clTransmitted, 
                            chValidate, clValidate, chRetry, clRetry, chStats, 
                            clStats, wgScanned, wgQueued, wgTransmit, 
                            wgTransmitted, wgStats, wgValidate, wgValidated, 
                            found, Q, doneF, failedF, dropped, faults, fails, 
                            started, returned, new, inOpen, nxt, cur, pl, 
                            progress, tin, poll, vin, cf, rf >>

retrier(self) == r0(self) \/ r1(self) \/ r2(self) \/ r3(self) \/ rX(self)

(* Allow infinite stuttering to prevent deadlock on termination. *)
Terminating == /\ \A self \in ProcSet: pc[self] = "Done"
               /\ UNCHANGED vars

Next == env \/ stopper \/ main \/ scanner \/ queue \/ binner \/ stats
           \/ tracker \/ validator
           \/ (\E self \in Senders: sender(self))
           \/ (\E self \in Retriers: retrier(self))
           \/ Terminating

Spec == /\ Init /\ [][Next]_vars
        /\ WF_vars(env)
        /\ WF_vars(stopper)
        /\ WF_vars(main)
        /\ WF_vars(scanner)
        /\ WF_vars(queue)
        /\ WF_vars(binner)
        /\ \A self \in Senders : WF_vars(sender(self))
        /\ WF_vars(stats)
        /\ WF_vars(tracker)
        /\ WF_vars(validator)
        /\ \A self \in Retriers : WF_vars(retrier(self))

Termination == <>(\A self \in ProcSet: pc[self] = "Done")

\* END TRANSLATION

-----------------------------------------------------------------------------
(* C16 *)
\* every stop terminates: once a stop was requested Start returns
P_C16_Terminates == (stopReq # "none") ~> returned
\* nobody sends on a closed channel (a panic in Go): a channel is closed only after its writers left
P_C16_NoSendOnClosed ==
  /\ (clScanned => pc["scanner"] = "Done" /\ \A r \in Retriers : pc[r] = "Done")
  /\ (clQueued => pc["queue"] = "Done")
  /\ (clTransmit => pc["binner"] = "Done")
  /\ (clTransmitted => \A x \in Senders : pc[x] = "Done")
  /\ (clValidate => pc["tracker"] = "Done")
  /\ (clStats => \A x \in Senders : pc[x] = "Done")
  /\ (clRetry => pc["validator"] = "Done")
\* a graceful stop finishes the work: everything a scan found was polled to a verdict
P_C16_Drain == (returned /\ graceful /\ started) => (found \ dropped) \subseteq (doneF \cup failedF)
\* The order of exits and closes observed from the real Broker (hooks client.exit / client.close /
\* client.return) is judged by ExitOrderN of ShutdownOrder.tla in SenderTrace.tla; on this model the
\* same fact is the state predicate P_C16_NoSendOnClosed together with the program order of main.
\* The tracker is never parked for good: with its input gone it holds a complete file (which it will
\* hand over) or has left (as found - KF_S17, KF_S27 - it could hold only incomplete files for ever, or
\* block with nothing held).
P_C16_TrackerLive ==
  (pc["tracker"] = "t3" /\ ~tin) => (progress \ dropped) # {}
=============================================================================
