------------------------------ MODULE MCStage ------------------------------
(* Universes (names, versions, announced predecessors, rename targets) for  *)
(* the design check of Stage.tla, for scenario generation and for trace      *)
(* validation; one TLC run per universe.                                     *)
EXTENDS StageTrace

\* U1: b after a; a has two versions
NamesAB == {"p", "q"}
VersAB == [n \in NamesAB |-> IF n = "p" THEN {1, 2} ELSE {1}]
PrevAB == [n \in NamesAB |-> IF n = "q" THEN "p" ELSE ""]
RenNone == [n \in NamesAB |-> ""]
SubSelf == [n \in NamesAB |-> {n}]
\* U2: a predecessor cycle
PrevCyc == [n \in NamesAB |-> IF n = "q" THEN "p" ELSE "q"]
Vers1 == [n \in NamesAB |-> {1}]
\* U3: same leaf name in two directories, one delivered under another name
NamesDir == {"p", "s/p"}
VersDir == [n \in NamesDir |-> IF n = "p" THEN {1, 2} ELSE {1}]
PrevDir == [n \in NamesDir |-> IF n = "s/p" THEN "p" ELSE ""]
RenDir == [n \in NamesDir |-> IF n = "p" THEN "out/p.z" ELSE ""]
SubDir == [n \in NamesDir |-> IF n = "p" THEN {"p", "s/p"} ELSE {n}]
\* U4: a name that is a substring of another one; c waits for a
NamesSub == {"p", "pq", "r"}
VersSub == [n \in NamesSub |-> {1}]
PrevSub == [n \in NamesSub |-> IF n = "r" THEN "p" ELSE ""]
RenSub == [n \in NamesSub |-> ""]
SubSub == [n \in NamesSub |-> IF n = "p" THEN {"p", "pq"} ELSE {n}]

-----------------------------------------------------------------------------
(* Scenario generation: commands are issued only while the receiver is      *)
(* quiescent (the harness runs every call to quiescence); every maximal      *)
(* command sequence is printed.                                              *)
VARIABLE cmds
gvars == <<d, m, b, h, oD, oM, oH, oP, oE, l, cmds>>
CONSTANTS MaxCmds, GenCrash, Emit,
          Focus,        \* the commands the generator may issue ( {} = all )
          FullOnly      \* TRUE: requests carry whole, uncorrupted files only
Allowed(op) == Focus = {} \/ op \in Focus
Whole(r) == ~FullOnly \/ (r.lo = 1 /\ r.hi = NB /\ r.dv = r.v)

Quiet == m.thr = {} /\ m.vq = {} /\ m.fq = {} /\ m.val = NoJob /\ m.fin = NoJob /\ m.rec = ""
Cmd(c) == /\ Quiet /\ Len(cmds) < MaxCmds /\ cmds' = Append(cmds, c)

GenInit == ObsInit /\ cmds = <<>>
Internal ==
  \/ \E t \in m.thr : (IF cmds # <<>> /\ cmds[Len(cmds)].op = "prepare" THEN RecvAbort(t) ELSE RecvWrite(t))
                        \/ RecvRecord(t) \/ RecvComplete(t)
  \/ \E n \in Names : ValStart(n) \/ FinTake(n)
  \/ ValWait \/ ValMark \/ PutLog \/ PutMoveLck \/ PutMoveFinal \/ PutMark \/ PutRmCmp
  \/ RecWalk \/ RecCache \/ RecEnd
GenNext ==
  /\ UNCHANGED <<oD, oM, oH, oP, oE, l>>
  /\ \/ (Internal /\ UNCHANGED cmds)
     \/ \E r \in Requests : Allowed("recv") /\ Whole(r) /\
          Prepare(r.n, r.v, r.lo, r.hi, r.dv)
          /\ Cmd([op |-> "recv", n |-> r.n, v |-> r.v, lo |-> r.lo, hi |-> r.hi, dv |-> r.dv])
     \/ \E r \in Requests : Allowed("prepare") /\ r.dv = r.v /\ r.lo = 1 /\ r.hi = NB
          /\ Prepare(r.n, r.v, r.lo, r.hi, r.dv) /\ Cmd([op |-> "prepare", n |-> r.n, v |-> r.v, lo |-> r.lo, hi |-> r.hi, dv |-> r.dv])
     \/ \E n \in Names : Allowed("status") /\ AnsStatus(n) /\ Cmd([op |-> "status", n |-> n])
     \/ \E r \in Requests : Allowed("received") /\ Whole(r) /\ r.dv = r.v /\ AnsReceived(r.n, r.v, r.lo, r.hi)
          /\ Cmd([op |-> "received", n |-> r.n, v |-> r.v, lo |-> r.lo, hi |-> r.hi, dv |-> r.v])
     \* (one two-part query per sequence, single blocks: it would otherwise crowd out the other commands
     \* of the random walks, which choose uniformly among successors)
     \/ \E r1, r2 \in Requests : Allowed("received2") /\ r1.dv = r1.v /\ r2.dv = r2.v /\ r1 # r2 /\ b.query = 0
          /\ r1.lo = r1.hi /\ r2.lo = r2.hi /\ AnsReceived2(r1, r2)
          /\ Cmd([op |-> "received2", n |-> r1.n, v |-> r1.v, lo |-> r1.lo, hi |-> r1.hi, dv |-> r1.v,
                   n2 |-> r2.n, v2 |-> r2.v, lo2 |-> r2.lo, hi2 |-> r2.hi])
     \/ \E n \in Names : Allowed("age") /\ AgePart(n) /\ Cmd([op |-> "age", n |-> n])
     \/ \E n \in Names : Allowed("clean") /\ (CleanStray(n) \/ CleanLoop(n)) /\ Cmd([op |-> "clean"])
     \/ \E n \in Names : Allowed("timer") /\ TimerFire(n) /\ Cmd([op |-> "timer", n |-> n])
     \/ Allowed("expire") /\ ExpireCache /\ Cmd([op |-> "expire"])
     \/ \E n \in Names, k \in Blocks : Allowed("overwrite") /\ Overwrite(n, k)
          /\ Cmd([op |-> "overwrite", n |-> n, k |-> k, ext |-> IF d.part[n] # Nil THEN ".part" ELSE ".full"])
     \/ GenCrash /\ Allowed("restart") /\ Crash /\ Cmd([op |-> "restart"])
GenSpec == GenInit /\ [][GenNext]_gvars

\* the design and the observation specifications with every variable of this module
DesignSpec == GenInit /\ [][Next /\ UNCHANGED <<oD, oM, oH, oP, oE, l, cmds>>]_gvars
MCObsSpec == GenInit /\ [][ObsNext /\ UNCHANGED cmds]_gvars

EmitScenario ==
  (Emit /\ Quiet /\ Len(cmds) = MaxCmds) => PrintT("SCN " \o ToJson([cmds |-> cmds]))
GenView == <<d, m, b, cmds>>
=============================================================================
