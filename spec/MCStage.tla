------------------------------ MODULE MCStage ------------------------------
(* Universes (names, versions, announced predecessors, rename targets) for  *)
(* the design check of Stage.tla, for scenario generation and for trace      *)
(* validation; one TLC run per universe.                                     *)
EXTENDS StageTrace

\* U1: b after a; a has two versions
NamesAB == {"p", "q"}
VersAB == [n \in NamesAB |-> IF n = "p" THEN {1, 2} ELSE {1}]
PrevAB == [n \in NamesAB |-> IF n = "q" THEN "p" ELSE ""]
RenNone == [n \in NamesAB |-> ""]
SubSelf == [n \in NamesAB |-> {n}]
\* U2: a predecessor cycle
PrevCyc == [n \in NamesAB |-> IF n = "q" THEN "p" ELSE "q"]
Vers1 == [n \in NamesAB |-> {1}]
\* U3: same leaf name in two directories, one delivered under another name
NamesDir == {"p", "s/p"}
VersDir == [n \in NamesDir |-> IF n = "p" THEN {1, 2} ELSE {1}]
PrevDir == [n \in NamesDir |-> IF n = "s/p" THEN "p" ELSE ""]
RenDir == [n \in NamesDir |-> IF n = "p" THEN "out/p.z" ELSE ""]
SubDir == [n \in NamesDir |-> IF n = "p" THEN {"p", "s/p"} ELSE {n}]
\* U4: a name that is a substring of another one; c waits for a
NamesSub == {"p", "pq", "r"}
VersSub == [n \in NamesSub |-> {1}]
PrevSub == [n \in NamesSub |-> IF n = "r" THEN "p" ELSE ""]
RenSub == [n \in NamesSub |-> ""]
SubSub == [n \in NamesSub |-> IF n = "p" THEN {"p", "pq"} ELSE {n}]

-----------------------------------------------------------------------------
(* Scenario generation: commands are issued only while the receiver is      *)
(* quiescent (the harness runs every call to quiescence); every maximal      *)
(* command sequence is printed.                                              *)
VARIABLE cmds
gvars == <<d, m, b, h, oD, oM, oH, oP, oE, l, cmds>>
CONSTANTS MaxCmds, GenCrash, Emit

Quiet == m.thr = {} /\ m.vq = {} /\ m.fq = {} /\ m.val = NoJob /\ m.fin = NoJob /\ m.rec = ""
Cmd(c) == /\ Quiet /\ Len(cmds) < MaxCmds /\ cmds' = Append(cmds, c)

GenInit == ObsInit /\ cmds = <<>>
Internal ==
  \/ \E t \in m.thr : (IF cmds # <<>> /\ cmds[Len(cmds)].op = "prepare" THEN RecvAbort(t) ELSE RecvWrite(t))
                        \/ RecvRecord(t) \/ RecvComplete(t)
  \/ \E n \in Names : ValStart(n) \/ FinTake(n)
  \/ ValWait \/ ValMark \/ PutLog \/ PutMoveLck \/ PutMoveFinal \/ PutMark \/ PutRmCmp
  \/ RecWalk \/ RecCache \/ RecEnd
GenNext ==
  /\ UNCHANGED <<oD, oM, oH, oP, oE, l>>
  /\ \/ (Internal /\ UNCHANGED cmds)
     \/ \E r \in Requests :
          Prepare(r.n, r.v, r.lo, r.hi, r.dv)
          /\ Cmd([op |-> "recv", n |-> r.n, v |-> r.v, lo |-> r.lo, hi |-> r.hi, dv |-> r.dv])
     \/ \E r \in Requests : r.dv = r.v /\ r.lo = 1 /\ r.hi = NB
          /\ Prepare(r.n, r.v, r.lo, r.hi, r.dv) /\ Cmd([op |-> "prepare", n |-> r.n, v |-> r.v, lo |-> r.lo, hi |-> r.hi, dv |-> r.dv])
     \/ \E n \in Names : AnsStatus(n) /\ Cmd([op |-> "status", n |-> n])
     \/ \E r \in Requests : r.dv = r.v /\ AnsReceived(r.n, r.v, r.lo, r.hi)
          /\ Cmd([op |-> "received", n |-> r.n, v |-> r.v, lo |-> r.lo, hi |-> r.hi, dv |-> r.v])
     \/ \E n \in Names : AgePart(n) /\ Cmd([op |-> "age", n |-> n])
     \/ \E n \in Names : (CleanStray(n) \/ CleanLoop(n)) /\ Cmd([op |-> "clean"])
     \/ \E n \in Names : TimerFire(n) /\ Cmd([op |-> "timer", n |-> n])
     \/ ExpireCache /\ Cmd([op |-> "expire"])
     \/ \E n \in Names, k \in Blocks : Overwrite(n, k)
          /\ Cmd([op |-> "overwrite", n |-> n, k |-> k, ext |-> IF d.part[n] # Nil THEN ".part" ELSE ".full"])
     \/ GenCrash /\ Crash /\ Cmd([op |-> "restart"])
GenSpec == GenInit /\ [][GenNext]_gvars

\* the design and the observation specifications with every variable of this module
DesignSpec == GenInit /\ [][Next /\ UNCHANGED <<oD, oM, oH, oP, oE, l, cmds>>]_gvars
MCObsSpec == GenInit /\ [][ObsNext /\ UNCHANGED cmds]_gvars

EmitScenario ==
  (Emit /\ Quiet /\ Len(cmds) = MaxCmds) => PrintT("SCN " \o ToJson([cmds |-> cmds]))
GenView == <<d, m, b, cmds>>
=============================================================================
