------------------------------ MODULE MCStage ------------------------------
EXTENDS Stage

\* two names, b after a; a has two versions
NamesAB == {"a", "b"}
VersAB == [n \in NamesAB |-> IF n = "a" THEN {1, 2} ELSE {1}]
PrevAB == [n \in NamesAB |-> IF n = "b" THEN "a" ELSE ""]
RenNone == [n \in NamesAB |-> ""]
SubSelf == [n \in NamesAB |-> {n}]
=============================================================================
