-------------------------------- MODULE Gate --------------------------------
(***************************************************************************)
(* The request gate of the receiver: http.Server.handleValidate, the       *)
(* routes behind it (http/server.go), main.serverApp.standardValidator and *)
(* the source -> directory mapping of main/server.go, with file names as   *)
(* sequences of path segments joined the way filepath.Join / Clean do.     *)
(*                                                                         *)
(* A request is answered with a status and touches a set of locations      *)
(* [area, dir, escaped]: area in stage / final / log / serve, dir = the    *)
(* source directory it lands in, escaped = the path left that directory.   *)
(***************************************************************************)
EXTENDS Integers, Sequences, FiniteSets, TLC

CONSTANTS KF_S8,        \* finding S8: names from the payload header are joined without a check
          KF_S14        \* finding S14: the ready flag is cleared inside Recover(), which main/server.go
                        \* starts as a goroutine: requests that arrive before it runs are processed

(* path segments: "n" a normal name, ".." parent, "." current, "" empty *)
Up == ".."
RECURSIVE Walk(_, _, _)
Walk(segs, depth, esc) ==           \* filepath.Join + Clean below a root: does it leave the root?
  IF segs = <<>> THEN esc
  ELSE LET s == Head(segs)
       IN IF s = Up THEN Walk(Tail(segs), depth - 1, esc \/ depth - 1 < 0)
          ELSE IF s \in {"", ".", "ABS"} THEN Walk(Tail(segs), depth, esc)
          ELSE Walk(Tail(segs), depth + 1, esc)
Escapes(segs) == Walk(segs, 0, FALSE)
IsLocal(segs) == ~Escapes(segs) /\ segs # <<>> /\ Head(segs) # "ABS"   \* filepath.IsLocal

\* source names: the pattern ^[a-z0-9.\-/]+$ of the validator, per abstract source value
SrcOK(s) == s \in {"s1", "s2", "zz", "..", "s1/x"}       \* "S1", "s1$", "" do not match
\* the directory a source maps to ( "/" -> "--" ); ".." stays ".."
SrcDirEscapes(s) == s = ".."

\* the sources that have a staging area when the receiver starts (the ones start-up recovery
\* concerns; a gatekeeper for any other source name is created on demand and is ready at once)
StartSrcs == {"s1", "s2", "zz", "s1/x"}

\* cf = [sources, keys]: the configured lists ( {} = not configured )
Allowed(cf, src, key) ==
  /\ (cf.sources # {} => (SrcOK(src) /\ src \in cf.sources))
  /\ (cf.keys # {} => key \in cf.keys)

\* the answer of handleValidate ("pass" = handed to the route)
Gate(cf, src, key, ready) ==
  IF src = "" THEN "400"
  ELSE IF ~KF_S8 /\ SrcDirEscapes(src) THEN "400"       \* filepath.IsLocal(source) (absent as found: S8)
  ELSE IF ~ready /\ src \in StartSrcs THEN "503"
  ELSE IF ~Allowed(cf, src, key) THEN "403"
  ELSE "pass"

\* the data route for one complete, correct part named `name`, with rename target `ren`
DataRoute(src, name, ren) ==
  IF KF_S8 \/ (IsLocal(name) /\ (ren = <<>> \/ IsLocal(ren)))
  THEN [status |-> "200",
        touched |-> {[area |-> "stage", dir |-> src, escaped |-> Escapes(name) \/ SrcDirEscapes(src)],
                     [area |-> "final", dir |-> src,
                      escaped |-> Escapes(IF ren = <<>> THEN name ELSE ren) \/ SrcDirEscapes(src)],
                     [area |-> "log", dir |-> src, escaped |-> SrcDirEscapes(src)]}]
  ELSE [status |-> "400", touched |-> {}]

\* the static route: segment whitelist, no "..", os.Root
StaticRoute(src, path, method, exists) ==
  IF src \notin {"s1", "s2", "zz", "S1"} THEN [status |-> "400", touched |-> {}]   \* sanitizePathSegment(source)
  ELSE IF \E i \in 1..Len(path) : path[i] \in {Up, "BAD"} THEN [status |-> "400", touched |-> {}]
  ELSE IF ~exists THEN [status |-> "404", touched |-> {}]
  ELSE IF method = "DELETE"
       THEN [status |-> "200", touched |-> {[area |-> "serve", dir |-> src, escaped |-> FALSE]}]
       ELSE [status |-> "200", touched |-> {}]

-----------------------------------------------------------------------------
(* the model: any request at any time, recovery may be in progress *)
CONSTANTS Confs, Srcs, Keys, NamePool, RenPool, StaticPool
VARIABLES conf, ready, ev
vars == <<conf, ready, ev>>
Routes == {"data", "data-recovery", "validate", "partials", "static-get", "static-delete"}

Answer(r) ==
  LET g == Gate(conf, r.src, r.key, ready)
  IN IF g # "pass" THEN [status |-> g, touched |-> {}]
     ELSE CASE r.route = "data" -> DataRoute(r.src, r.name, r.ren)
            [] r.route \in {"data-recovery", "validate", "partials"} -> [status |-> "200", touched |-> {}]
            [] r.route = "static-get" -> StaticRoute(r.src, r.path, "GET", r.exists)
            [] r.route = "static-delete" -> StaticRoute(r.src, r.path, "DELETE", r.exists)

Init == conf \in Confs /\ ready = TRUE /\ ev = [op |-> "none"]
Ev(r) == [op |-> "req", conf |-> conf, req |-> r, ready |-> ready, early |-> FALSE, ans |-> Answer(r)]
Request ==
  \E route \in Routes, src \in Srcs, key \in Keys :
    \/ /\ route \in {"data", "data-recovery", "validate"}
       /\ \E name \in NamePool, ren \in RenPool :
            LET r == [route |-> route, src |-> src, key |-> key, name |-> name, ren |-> ren,
                      path |-> <<>>, exists |-> FALSE]
            IN ev' = Ev(r)
    \/ /\ route = "partials"
       /\ LET r == [route |-> route, src |-> src, key |-> key, name |-> <<>>, ren |-> <<>>,
                    path |-> <<>>, exists |-> FALSE]
          IN ev' = Ev(r)
    \/ /\ route \in {"static-get", "static-delete"}
       /\ \E p \in StaticPool, x \in BOOLEAN :
            LET r == [route |-> route, src |-> src, key |-> key, name |-> <<>>, ren |-> <<>>,
                      path |-> p, exists |-> x]
            IN ev' = Ev(r)
Toggle == ready' = ~ready /\ ev' = [op |-> "recover", ready |-> ~ready]
\* requests are independent of one another (the gate keeps no state between them): one request
\* per behaviour, before or during recovery
Next == (ev.op # "req" /\ Request /\ UNCHANGED <<conf, ready>>) \/ (ev.op = "none" /\ Toggle /\ UNCHANGED conf)
Spec == Init /\ [][Next]_vars

-----------------------------------------------------------------------------
(* Formulas over an event e = [req, ready, ans] (predicted or observed)     *)
IsReq(e) == e.op = "req"
\* C14: nothing outside the directories of the source the request was authorised for
P_C14_Confined(e) ==
  IsReq(e) => \A t \in e.ans.touched : ~t.escaped /\ t.dir = e.req.src
\* C14: a refused request has no side effect
P_C14_RefusedClean(e) ==
  (IsReq(e) /\ e.ans.status \in {"400", "403", "404", "405", "503"}) => e.ans.touched = {}
\* C15: not allowed => 403 (400 without a source) and no effect
\* net/http's mux answers a path with literal dot segments by a redirect to the cleaned path
\* before any handler of the receiver runs: nothing is granted, looked up or changed
Redirected(e) ==
  /\ e.req.route \in {"static-get", "static-delete"} /\ \E i \in 1..Len(e.req.path) : e.req.path[i] = Up
  /\ e.ans.status = "301" /\ e.ans.touched = {}
P_C15_Refused(e) ==
  (IsReq(e) /\ e.ready /\ ~Allowed(e.conf, e.req.src, e.req.key) /\ ~Redirected(e)) =>
     \* (a source name that would leave the roots is refused as malformed before it is looked up)
     (e.ans.status = (IF e.req.src = "" \/ (~KF_S8 /\ SrcDirEscapes(e.req.src)) THEN "400" ELSE "403")
      /\ e.ans.touched = {})
\* C15: while recovering => unavailable and no effect
P_C15_Unavailable(e) ==
  (IsReq(e) /\ ~e.ready /\ e.req.src \in StartSrcs /\ ~(KF_S14 /\ e.early) /\ ~Redirected(e)) => (e.ans.status = "503" /\ e.ans.touched = {})

Inv_C14_Confined == P_C14_Confined(ev)
Inv_C14_RefusedClean == P_C14_RefusedClean(ev)
Inv_C15_Refused == P_C15_Refused(ev)
Inv_C15_Unavailable == P_C15_Unavailable(ev)
=============================================================================
