SPECIFICATION Spec
CONSTANTS
  Confs <- ConfsB
  Batches <- BatchesB
  MaxOps = 8
  MaxPush = 3
  Emit = FALSE
  KF_Q1 = TRUE
CONSTRAINT EmitScenario
INVARIANTS
  Inv_C10_Next Inv_C10_NoSelf Inv_C10_Prev Inv_C10_Acyclic Inv_C11_Chunk
  Inv_C12_Priority Inv_C12_NoIdle Inv_C12_DelaySkip Inv_C12_Rotation
  I_HeadFirst I_ChainMirrorsList I_ByFile
CHECK_DEADLOCK FALSE
