-------------------------------- MODULE Conf --------------------------------
(***************************************************************************)
(* Inheritance and re-encoding of the sender configuration (conf.go:       *)
(* ClientConf.propagate, reflectutil.CopyStruct, the (un)marshalers of     *)
(* SourceConf and TagConf), as a function on abstract documents.           *)
(*                                                                         *)
(* A document gives, per source, a value for one representative option of  *)
(* each KIND the code distinguishes, and a list of tags (the first is the  *)
(* default tag):                                                           *)
(*   num : numbers, durations, sizes, strings, lists - inherited when zero *)
(*   bm  : boolean with an "is set" marker (stat-payload; tag: delete)     *)
(*   bn  : boolean without marker (include-hidden)                         *)
(*   fm  : number with an "is set" marker (error-backoff)                  *)
(* Written values: "A" absent, "Z" explicitly zero / false, "V1", "V2".    *)
(* The harness renders every document with every concrete option of each   *)
(* kind, in YAML and in JSON.                                               *)
(***************************************************************************)
EXTENDS Integers, Sequences, FiniteSets, TLC

CONSTANTS KF_ZERO,   \* finding: an explicit zero of a "num" option is indistinguishable from absent
          KF_S12     \* finding S12: include-hidden has no marker; an explicit false is overridden

Val(w) == CASE w = "V1" -> 1 [] w = "V2" -> 2 [] OTHER -> 0      \* the Go value: 0 = zero / false

(* internal representation after parsing one source / tag *)
ParseSrc(s) ==
  [num |-> Val(s.num),
   bm |-> [val |-> s.bm = "V1", set |-> s.bm = "Z"],            \* marker only for explicit false
   bn |-> s.bn = "V1",
   fm |-> [val |-> Val(s.fm), set |-> s.fm # "A"],
   tags |-> [j \in 1..Len(s.tags) |-> [tnum |-> Val(s.tags[j].tnum),
                                       tbm |-> [val |-> s.tags[j].tbm = "V1", set |-> s.tags[j].tbm = "Z"]]],
   hasTags |-> s.tags # <<>>]

\* reflectutil.CopyStruct(tgt, src) + restoration of the marked fields
CopySrc(tgt, src) ==
  [num |-> IF tgt.num = 0 THEN src.num ELSE tgt.num,
   bm |-> [val |-> IF tgt.bm.set THEN tgt.bm.val ELSE (IF ~tgt.bm.val THEN src.bm.val ELSE tgt.bm.val),
           set |-> tgt.bm.set],
   bn |-> IF ~tgt.bn THEN src.bn ELSE tgt.bn,
   fm |-> [val |-> IF tgt.fm.set THEN tgt.fm.val ELSE (IF tgt.fm.val = 0 THEN src.fm.val ELSE tgt.fm.val),
           set |-> tgt.fm.set],
   tags |-> IF ~tgt.hasTags THEN src.tags ELSE tgt.tags,       \* a nil slice is inherited (shared)
   hasTags |-> tgt.hasTags \/ src.hasTags]
CopyTag(t, def) ==
  [tnum |-> IF t.tnum = 0 THEN def.tnum ELSE t.tnum,
   tbm |-> [val |-> IF t.tbm.set THEN t.tbm.val ELSE (IF ~t.tbm.val THEN def.tbm.val ELSE t.tbm.val),
            set |-> t.tbm.set]]
PropTags(s) ==
  IF Len(s.tags) > 1
  THEN [s EXCEPT !.tags = [j \in 1..Len(s.tags) |-> IF j = 1 THEN s.tags[1] ELSE CopyTag(s.tags[j], s.tags[1])]]
  ELSE s

\* propagate(): sources in order; each inherits from the (already propagated) previous one
RECURSIVE Propagate(_, _)
Propagate(done, rest) ==
  IF rest = <<>> THEN done
  ELSE LET cur == IF done = <<>> THEN Head(rest) ELSE CopySrc(Head(rest), done[Len(done)])
       IN Propagate(Append(done, PropTags(cur)), Tail(rest))
Eff(doc) == Propagate(<<>>, [i \in 1..Len(doc) |-> ParseSrc(doc[i])])

\* MarshalJSON of the propagated configuration, as a document again
W(v) == CASE v = 1 -> "V1" [] v = 2 -> "V2" [] OTHER -> "Z"
EncBm(x) == IF x.val THEN "V1" ELSE IF x.set THEN "Z" ELSE "A"
Encode(eff) ==
  [i \in 1..Len(eff) |->
     [num |-> W(eff[i].num), bm |-> EncBm(eff[i].bm),
      bn |-> IF eff[i].bn THEN "V1" ELSE "Z",
      fm |-> IF eff[i].fm.set THEN W(eff[i].fm.val) ELSE "A",
      tags |-> [j \in 1..Len(eff[i].tags) |-> [tnum |-> W(eff[i].tags[j].tnum), tbm |-> EncBm(eff[i].tags[j].tbm)]]]]

\* the observable effective values (markers are not observable)
Show(eff) ==
  [i \in 1..Len(eff) |->
     [num |-> eff[i].num, bm |-> eff[i].bm.val, bn |-> eff[i].bn, fm |-> eff[i].fm.val,
      tags |-> [j \in 1..Len(eff[i].tags) |-> [tnum |-> eff[i].tags[j].tnum, tbm |-> eff[i].tags[j].tbm.val]]]]

-----------------------------------------------------------------------------
(* Formulas over a case  c = [doc, eff (shown), eff2 (shown, after re-encoding)] *)
Given(w) == w # "A"
\* what the statement asks of source i, option f
RECURSIVE Want(_, _, _)
Want(doc, i, f) ==
  IF Given(doc[i][f]) THEN Val(doc[i][f])
  ELSE IF i = 1 THEN 0 ELSE Want(doc, i - 1, f)
B(x) == IF x THEN 1 ELSE 0
\* the tags in force for source i: its own, else those of the nearest source above that has some
RECURSIVE TagsOf(_, _)
TagsOf(doc, i) == IF doc[i].tags # <<>> \/ i = 1 THEN doc[i].tags ELSE TagsOf(doc, i - 1)
WantTag(tags, j, f) == IF Given(tags[j][f]) \/ j = 1 THEN Val(tags[j][f]) ELSE Val(tags[1][f])

P_C19_Inherit(c) ==
  \A i \in 1..Len(c.doc) :
    /\ (KF_ZERO /\ \E k \in 1..i : c.doc[k].num = "Z") \/ c.eff[i].num = Want(c.doc, i, "num")
    /\ B(c.eff[i].bm) = Want(c.doc, i, "bm")
    /\ (KF_S12 /\ \E k \in 1..i : c.doc[k].bn = "Z") \/ B(c.eff[i].bn) = Want(c.doc, i, "bn")
    /\ c.eff[i].fm = Want(c.doc, i, "fm")
    /\ LET tg == TagsOf(c.doc, i)
       IN /\ Len(c.eff[i].tags) = Len(tg)
          /\ \A j \in 1..Len(tg) :
               /\ (KF_ZERO /\ tg[j].tnum = "Z") \/ c.eff[i].tags[j].tnum = WantTag(tg, j, "tnum")
               /\ B(c.eff[i].tags[j].tbm) = WantTag(tg, j, "tbm")
P_C19_RoundTrip(c) == c.eff2 = c.eff

-----------------------------------------------------------------------------
CONSTANTS NSrc, WNum, WBm, WBn, WFm, TagLists
VARIABLE c
Srcs == [num : WNum, bm : WBm, bn : WBn, fm : WFm, tags : TagLists]
Init == \E doc \in [1..NSrc -> Srcs] :
          c = [doc |-> doc, eff |-> Show(Eff(doc)), eff2 |-> Show(Eff(Encode(Eff(doc))))]
Next == UNCHANGED c
Spec == Init /\ [][Next]_c
Inv_C19_Inherit == P_C19_Inherit(c)
Inv_C19_RoundTrip == P_C19_RoundTrip(c)
=============================================================================
