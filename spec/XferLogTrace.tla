--------------------------- MODULE XferLogTrace ---------------------------
(* Trace validation for log.FileIO: "reset" (kind), "write", "nextday",      *)
(* "search" / "parse" with the observed result.  hist = predicted, obs =      *)
(* observed; the C18 formulas are evaluated on obs.                           *)
EXTENDS XferLog, Json

CONSTANT TraceFile
Trace == ndJsonDeserialize(TraceFile)
VARIABLES obs, l
tvars == <<kind, files, today, hist, obs, l>>

E == Trace[l]
TraceInit == l = 1 /\ kind = "recv" /\ files = <<>> /\ today = 1 /\ hist = <<>> /\ obs = <<>>

TraceNext ==
  /\ l <= Len(Trace) /\ l' = l + 1
  /\ CASE E.op = "reset" ->
            kind' = E.kind /\ files' = <<>> /\ today' = 1 /\ hist' = <<>> /\ obs' = <<>>
       [] E.op = "nextday" ->
            /\ today' = today + 1 /\ UNCHANGED <<kind, files>>
            /\ hist' = Append(hist, [op |-> "nextday"]) /\ obs' = Append(obs, [op |-> "nextday"])
       [] E.op = "write" ->
            LET r == [name |-> E.rec.name, ren |-> E.rec.ren, hash |-> E.rec.hash, day |-> today]
            IN /\ files' = IF today \in DOMAIN files THEN [files EXCEPT ![today] = Append(@, r)]
                           ELSE files @@ (today :> <<r>>)
               /\ hist' = Append(hist, [op |-> "write", rec |-> r])
               /\ obs' = Append(obs, [op |-> "write", rec |-> r])
               /\ UNCHANGED <<kind, today>>
       [] E.op = "search" ->
            LET f == <<E.from[1], E.from[2]>>
                t == <<E.to[1], E.to[2]>>
                ev(res) == [op |-> "search", name |-> E.name, hash |-> E.hash, from |-> f, to |-> t, res |-> res]
            IN /\ hist' = Append(hist, ev(Search(E.name, E.hash, f, t)))
               /\ obs' = Append(obs, ev(E.res))
               /\ UNCHANGED <<kind, files, today>>
       [] E.op = "parse" ->
            LET f == <<E.from[1], E.from[2]>>
                t == <<E.to[1], E.to[2]>>
            IN /\ hist' = Append(hist, [op |-> "parse", from |-> f, to |-> t, res |-> ParseAll(f, t)])
               /\ obs' = Append(obs, [op |-> "parse", from |-> f, to |-> t, res |-> E.res])
               /\ UNCHANGED <<kind, files, today>>

TraceSpec == TraceInit /\ [][TraceNext]_tvars
TraceAccepted == TLCGet("stats").diameter = Len(Trace) + 1
Obs_C18_Complete == P_C18_Complete(obs)
Obs_C18_Exact == P_C18_Exact(obs)
Obs_C18_Parse == P_C18_Parse(obs)
Conform == hist = obs
=============================================================================
