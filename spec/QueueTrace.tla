----------------------------- MODULE QueueTrace -----------------------------
(* Trace validation for queue.Tagged.  The trace file holds any number of    *)
(* recorded executions of the real queue, each starting with a "reset" event *)
(* that carries the tag configuration; "push" events carry the files pushed, *)
(* "pop" events the result the real queue returned.                          *)
(*   hist : the history the specification predicts for the same inputs       *)
(*   obs  : the history that was observed                                    *)
(* The property formulas of Queue.tla are evaluated on obs (what the code    *)
(* did); Conform compares the two (is the code still the verified design?).  *)
EXTENDS Queue, Json

CONSTANT TraceFile
Trace == ndJsonDeserialize(TraceFile)

VARIABLES obs, l
tvars == <<conf, q, hist, obs, l>>

TraceInit ==
  /\ l = 1 /\ conf = <<>> /\ q = EmptyQ /\ hist = <<>> /\ obs = <<>>

TraceReset ==
  /\ Trace[l].op = "reset"
  /\ conf' = Trace[l].conf
  /\ q' = EmptyQ /\ hist' = <<>> /\ obs' = <<>>

TracePush ==
  /\ Trace[l].op = "push"
  /\ q' = PushAll(q, Trace[l].files)
  /\ hist' = Append(hist, [op |-> "push", files |-> Trace[l].files])
  /\ obs' = Append(obs, [op |-> "push", files |-> Trace[l].files])
  /\ UNCHANGED conf

TracePop ==
  /\ Trace[l].op = "pop"
  /\ LET r == Pop(q)
     IN /\ q' = r[1]
        /\ hist' = Append(hist, [op |-> "pop", res |-> r[2]])
  /\ obs' = Append(obs, [op |-> "pop", res |-> Trace[l].res])
  /\ UNCHANGED conf

TraceTick ==
  /\ Trace[l].op = "tick"
  /\ q' = [q EXCEPT !.aged = TRUE]
  /\ hist' = Append(hist, [op |-> "tick"])
  /\ obs' = Append(obs, [op |-> "tick"])
  /\ UNCHANGED conf

TraceNext ==
  /\ l <= Len(Trace)
  /\ l' = l + 1
  /\ (TraceReset \/ TracePush \/ TracePop \/ TraceTick)

TraceSpec == TraceInit /\ [][TraceNext]_tvars

\* the whole file was consumed (checked by the orchestrator through the depth
\* TLC reports, and here as a postcondition)
TraceAccepted == TLCGet("stats").diameter = Len(Trace) + 1

Obs_C10_Next == P_C10_Next(obs)
Obs_C10_NoSelf == P_C10_NoSelf(obs)
Obs_C10_Prev == P_C10_Prev(obs)
Obs_C10_Acyclic == P_C10_Acyclic(obs)
Obs_C11_Chunk == P_C11_Chunk(obs)
Obs_C12_Priority == P_C12_Priority(obs)
Obs_C12_NoIdle == P_C12_NoIdle(obs)
Obs_C12_DelaySkip == P_C12_DelaySkip(obs)
Obs_C12_Rotation == P_C12_Rotation(obs)
Conform == hist = obs
=============================================================================
