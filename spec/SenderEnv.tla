------------------------------ MODULE SenderEnv ------------------------------
(***************************************************************************)
(* The environment of the sender (client.Broker) as a set of schedules:    *)
(* configuration, source files, changes to them at chosen interface calls, *)
(* faults on chosen requests, the moment of a stop request or of a crash.  *)
(* TLC enumerates the schedules of a family; the harness runs each one on  *)
(* the real Broker against a real receiver and records the execution       *)
(* (SenderTrace.tla judges it).  The call index i of a step means: when    *)
(* the broker makes its i-th call on one of its component interfaces.      *)
(***************************************************************************)
EXTENDS Integers, Sequences, FiniteSets, TLC, Json

CONSTANTS Family, MaxAt

F(name, size, v, age, kind) == [name |-> name, size |-> size, v |-> v, age |-> age, kind |-> kind]
Base(threads, payload, chunk, order, delete, oneshot, files) ==
  [threads |-> threads, payload |-> payload, chunk |-> chunk, order |-> order, delete |-> delete,
   attempts |-> 2, pollmax |-> 2, minage |-> 0, hidden |-> FALSE, include |-> <<>>, ignore |-> <<>>,
   oneshot |-> oneshot, files |-> files, steps |-> <<>>, faults |-> <<>>, settle |-> 0, pollms |-> 5, deldelay |-> 0, prestage |-> <<>>]

Files2 == << F("p.dat", 20, 1, 100, ""), F("d/q.dat", 37, 1, 90, "") >>
Files3 == << F("p.dat", 20, 1, 100, ""), F("d/q.dat", 5, 1, 90, ""), F("r.dat", 33, 1, 80, "") >>
Files1 == << F("p.dat", 45, 1, 100, "") >>

\* ---- failure-free runs over configurations (C11, C16 drain, C17 found / once, C03)
Plain ==
  { Base(t, p, c, o, d, one, fs) :
      t \in {1, 2}, p \in {16, 20, 64}, c \in {8, 16, 64}, o \in {"fifo", "lifo", "none"}, d \in BOOLEAN,
      one \in BOOLEAN, fs \in {Files1, Files2, Files3} }

\* ---- request failures: every failure position x kind on the first requests (C08, C03)
FaultKinds ==
  { [kind |-> "transmit", k |-> k, what |-> w, j |-> 0] : k \in 1..3, w \in {"refuse", "lost"} }
  \cup { [kind |-> "transmit", k |-> k, what |-> "fail206", j |-> j] : k \in 1..3, j \in 1..3 }
  \cup { [kind |-> "validate", k |-> k, what |-> w, j |-> 0] : k \in 1..2, w \in {"error", "lost"} }
  \* transient corruption on the way into the staging area: the parts are recorded, the file fails validation
  \cup { [kind |-> "transmit", k |-> k, what |-> "corrupt", j |-> 0] : k \in 1..3 }
Recov == { <<>>, << [kind |-> "txrecover", k |-> 1, what |-> "error", j |-> 0] >> }
Faulty ==
  { [Base(t, 16, 8, "fifo", d, FALSE, fs) EXCEPT !.faults = <<f1>> \o r] :
      t \in {1, 2}, d \in BOOLEAN, fs \in {Files2, Files3}, f1 \in FaultKinds, r \in Recov }
  \cup { [Base(1, 16, 8, "fifo", FALSE, FALSE, Files2) EXCEPT !.faults = <<f1, f2>>] :
           f1 \in FaultKinds, f2 \in FaultKinds }

\* ---- a stop request at every visible action, both kinds (C16)
Stops ==
  { [Base(t, 16, 8, "fifo", FALSE, FALSE, fs) EXCEPT !.steps = << [at |-> i, op |-> s] >>, !.faults = fl] :
      t \in {1, 2}, fs \in {Files1, Files2}, i \in 1..MaxAt, s \in {"stop", "stopnow"},
      fl \in { <<>>, << [kind |-> "transmit", k |-> 1, what |-> "lost", j |-> 0] >> } }

\* ---- stops while validations fail: every file of the first request(s) is corrupted on its way in,
\* the stop (one-shot, or graceful / immediate at call i) finds failed verdicts and retries in flight
Files4 == << F("p.dat", 9, 1, 100, ""), F("d/q.dat", 5, 1, 90, ""), F("r.dat", 11, 1, 80, ""), F("s.dat", 7, 1, 70, "") >>
Corrupt(n) == [k \in 1..n |-> [kind |-> "transmit", k |-> k, what |-> "corrupt", j |-> 0]]
Stops2 ==
  { [Base(t, pl, 8, "fifo", d, TRUE, fs) EXCEPT !.faults = Corrupt(n)] :
      t \in {1, 2}, pl \in {16, 64}, d \in BOOLEAN, fs \in {Files3, Files4}, n \in 1..4 }
  \cup { [Base(t, pl, 8, "fifo", FALSE, FALSE, fs) EXCEPT !.faults = Corrupt(n), !.steps = << [at |-> i, op |-> s] >>] :
           t \in {1, 2}, pl \in {16, 64}, fs \in {Files3, Files4}, n \in 1..3, i \in 1..MaxAt, s \in {"stop", "stopnow"} }

\* ---- a sender crash at every visible action (C07, C02)
Crashes ==
  { [Base(t, 16, 8, "fifo", d, FALSE, fs) EXCEPT !.steps = << [at |-> i, op |-> "crash"] >>, !.faults = fl] :
      t \in {1, 2}, d \in BOOLEAN, fs \in {Files2, Files3}, i \in 1..MaxAt,
      fl \in { <<>>, << [kind |-> "transmit", k |-> 2, what |-> "fail206", j |-> 2] >> } }
  \cup UNION { { [Base(1, 16, 8, "fifo", FALSE, FALSE, Files2) EXCEPT
                     !.steps = << [at |-> i, op |-> "crash"], [at |-> i2, op |-> "crash"] >>] :
                    i2 \in { i + 3, i + 9 } } : i \in 1..MaxAt }

\* ---- every partial-reception state of a 64-byte file in chunks of 8: the sender crashes after it
\* persisted its cache and before it queued anything, and the receiver holds the chunks of S (each
\* recorded by a request of its own, so with gaps and not merged) when the sender restarts (C07)
RECURSIVE SortedSeq(_)
SortedSeq(S) == IF S = {} THEN <<>> ELSE LET x == CHOOSE x \in S : \A y \in S : x <= y IN <<x>> \o SortedSeq(S \ {x})
RangesOf(S) == [j \in 1..Cardinality(S) |-> << 8 * SortedSeq(S)[j], 8 * SortedSeq(S)[j] + 8 >>]
Recover ==
  { [Base(t, 16, 8, "fifo", d, FALSE, << F("p.dat", 64, 1, 100, "") >>) EXCEPT
        !.steps = << [at |-> 0, on |-> "push", k |-> 1, op |-> "crash"] >>,
        !.prestage = << [name |-> "p.dat", held |-> RangesOf(S)] >>] :
      t \in {1, 2}, d \in BOOLEAN, S \in (SUBSET (0..7)) \ {{}} }

\* ---- source files that change while queued / sent / after confirmation (C02, C17)
Changes ==
  { [Base(t, 16, 8, "fifo", d, FALSE, Files2) EXCEPT
        !.steps = << [at |-> i, op |-> w, file |-> F(n, sz, 2, 50, "")] >>, !.settle = 1200] :
      t \in {1, 2}, d \in BOOLEAN, i \in 1..MaxAt, w \in {"write", "touch", "delete"},
      n \in {"p.dat", "d/q.dat"}, sz \in {20, 41} }

\* ---- a source file is rewritten with a smaller or a larger size at every call (a staged body of the old
\* size meets an announcement of the new one: C01 "never a mixture")
ResizeOf(n, sizes) ==
  { [Base(t, 16, 8, "fifo", d, FALSE, Files2) EXCEPT
        !.steps = << [at |-> i, op |-> "write", file |-> F(n, sz, 2, 50, "")] >>, !.settle = 1200] :
      t \in {1, 2}, d \in BOOLEAN, i \in 1..MaxAt, sz \in sizes }
Resize == ResizeOf("p.dat", {9, 41}) \cup ResizeOf("d/q.dat", {20, 41})

\* ---- the same, placed at the k-th call of one kind (before the call takes effect), with a poll
\* delay shorter or longer than the scan delay: the windows scan / send / log / poll / release
CallKinds == {"scan", "add", "persist", "push", "pop", "transmit", "sent", "validate", "done"}
Changes2 ==
  { [Base(t, 16, 8, "fifo", d, FALSE, Files2) EXCEPT
        !.steps = << [at |-> 0, on |-> c, k |-> k, op |-> w, file |-> F(n, sz, 2, 50, "")] >>,
        !.settle = 1200, !.pollms = pm] :
      t \in {1, 2}, d \in BOOLEAN, c \in CallKinds, k \in 1..3, w \in {"write", "touch", "delete"},
      n \in {"p.dat", "d/q.dat"}, sz \in {20, 41}, pm \in {5, 130} }

\* ---- delayed deletion: a confirmed file stays on disk until it is old enough (101 s, the files are
\* 100 and 90 s old) and is then removed by the scan's clean-up; meanwhile its name gets new content
\* that the scan does or does not list (minimum age 0 / 60 s, the new content is 50 s old)
Changes3 ==
  { [Base(t, 16, 8, "fifo", TRUE, FALSE, Files2) EXCEPT
        !.steps = << [at |-> 0, on |-> c, k |-> k, op |-> w, file |-> F(n, sz, 2, 50, "")] >>,
        !.settle = 2600, !.deldelay = 101, !.minage = ma] :
      t \in {1, 2}, c \in {"sent", "validate", "done", "persist", "scan"}, k \in 1..4, w \in {"write", "touch"},
      n \in {"p.dat", "d/q.dat"}, sz \in {20, 41}, ma \in {0, 60} }

\* ---- eligibility of files (C17)
Kinds == {"", "hidden", "lock", "empty", "young", "ignored", "symlink", "hiddendir", "notincluded"}
Elig ==
  { [Base(1, 64, 64, "fifo", d, one, << F("ok.dat", 9, 1, 100, ""), F(nm, 12, 1, 100, k) >>) EXCEPT
        !.minage = ma, !.hidden = hid, !.ignore = ig, !.include = inc] :
      d \in BOOLEAN, one \in BOOLEAN, k \in Kinds, ma \in {0, 3600}, hid \in BOOLEAN,
      ig \in { <<>>, <<"\\.ign$">> }, inc \in { <<>>, <<"\\.dat$">>, <<"^x">> },
      nm \in {"x.dat"} }

Scenarios ==
  CASE Family = "plain" -> Plain
    [] Family = "faulty" -> Faulty
    [] Family = "stops" -> Stops
    [] Family = "stops2" -> Stops2
    [] Family = "crashes" -> Crashes
    [] Family = "recover" -> Recover
    [] Family = "changes" -> Changes
    [] Family = "changes2" -> Changes2
    [] Family = "resize" -> Resize
    [] Family = "changes3" -> Changes3
    [] Family = "elig" -> Elig

VARIABLE sc
Init == sc \in Scenarios
Next == UNCHANGED sc
Spec == Init /\ [][Next]_sc
EmitScenario == PrintT("SCN " \o ToJson(sc))
=============================================================================
