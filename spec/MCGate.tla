------------------------------- MODULE MCGate -------------------------------
EXTENDS Gate, Json
ConfsAll == { [sources |-> s, keys |-> k] : s \in {{}, {"s1", "s2"}}, k \in {{}, {"k1", "k2"}} }
SrcsAll == {"s1", "s2", "zz", "", "..", "S1", "s1$", "s1/x"}
KeysAll == {"k1", "kx", ""}
NamesAll == { <<"f">>, <<"d", "f">>, <<"..", "e1">>, <<"..", "..", "e2">>, <<"ABS", "abs">>,
              <<"d", "..", "..", "e3">>, <<".", "f2">> }
RensAll == { <<>>, <<"r">>, <<"..", "..", "e4">> }
StaticAll == { <<"x">>, <<"..", "x">>, <<"BAD">>, <<"d", "x">>, <<"d", "..", "..", "x">> }
CONSTANT Emit
SetToSeq(S) == CHOOSE f \in [1..Cardinality(S) -> S] : \A i, j \in 1..Cardinality(S) : i # j => f[i] # f[j]
EmitScenario ==
  (Emit /\ ev.op = "req") =>
     PrintT("SCN " \o ToJson([sources |-> SetToSeq(ev.conf.sources), keys |-> SetToSeq(ev.conf.keys),
                              ready |-> ev.ready, req |-> ev.req,
                              ans |-> [status |-> ev.ans.status, touched |-> SetToSeq(ev.ans.touched)]]))
=============================================================================
