------------------------------- MODULE Queue -------------------------------
(***************************************************************************)
(* queue.Tagged of ARM-DOE/sts, transcribed statement by statement         *)
(* (queue/queue.go), together with client.recoverFile.Allocate             *)
(* (client/client.go) for resumed files.  The queue is mutex protected, so *)
(* Push and Pop are one atomic action each.                                *)
(*                                                                         *)
(* The implementation state is the record  q ; the operation history is    *)
(* hist .  All property formulas (C10, C12, chunk part of C11) are         *)
(* operators over a *history* H and look only at the last event of H, so   *)
(* the same operators decide the design (H = hist, every reachable state)  *)
(* and an execution of the real code (H = the observed history, see        *)
(* QueueTrace.tla).                                                        *)
(***************************************************************************)
EXTENDS Integers, Sequences, FiniteSets, TLC

Nil == 0
NoRes == [name |-> "", grp |-> "", off |-> 0, len |-> 0, prev |-> "", send |-> 0]

(* A pushed file (argument of Push):                                       *)
(*   [name, grp : STRING, time, size : Int, rec : BOOLEAN, rprev : STRING, *)
(*    left : Seq(<<beg, end>>)]                                            *)
(* rec = TRUE: the file implements sts.Recovered (client.recoverFile) with *)
(* announced predecessor rprev and missing ranges left (empty = placeholder*)
(* that is "already allocated").                                           *)
(* Tag configuration  conf : [group -> [prio, order, chunk, delay]];       *)
(* a group outside DOMAIN conf has no matching tag (its files are skipped).*)
(* Abstract time: integers; a file with time >= YoungFrom is younger than  *)
(* the tag's last-file delay.                                              *)
YoungFrom == 20
Young(t) == t >= YoungFrom

VARIABLES conf, q, hist
vars == <<conf, q, hist>>

EmptyQ == [node |-> <<>>, nxt |-> <<>>, prv |-> <<>>,
           lst |-> <<>>, headF |-> <<>>, byFile |-> <<>>, gseq |-> <<>>,
           aged |-> FALSE]    \* aged: time has passed, no file is younger than the last-file delay any more
  \* lst, headF : functions on the set of known groups ( <<>> = empty function)
  \* byFile     : function on the set of names present

Has(f, k) == k \in DOMAIN f
Put(f, k, v) == IF Has(f, k) THEN [f EXCEPT ![k] = v] ELSE f @@ (k :> v)
Del(f, k) == [x \in DOMAIN f \ {k} |-> f[x]]

-----------------------------------------------------------------------------
(* link helpers: unlink / addAfter / addBefore / insertAfter / insertBefore *)
Unlink(s, n) ==
  LET p == s.prv[n]
      x == s.nxt[n]
      s1 == IF p # Nil THEN [s EXCEPT !.nxt[p] = x, !.prv[n] = Nil] ELSE s
      s2 == IF x # Nil THEN [s1 EXCEPT !.prv[x] = p, !.nxt[n] = Nil] ELSE s1
  IN s2

AddAfter(s, n, p) ==
  LET x == s.nxt[p]
      s1 == [s EXCEPT !.nxt[n] = x, !.prv[n] = p, !.nxt[p] = n]
  IN IF x # Nil THEN [s1 EXCEPT !.prv[x] = n] ELSE s1

AddBefore(s, n, x) ==
  LET p == s.prv[x]
      s1 == [s EXCEPT !.nxt[n] = x, !.prv[n] = p, !.prv[x] = n]
  IN IF p # Nil THEN [s1 EXCEPT !.nxt[p] = n] ELSE s1

InsertAfter(s, n, p) == AddAfter(Unlink(s, n), n, p)
InsertBefore(s, n, x) == AddBefore(Unlink(s, n), n, x)

-----------------------------------------------------------------------------
(* sortedFile methods *)
RECURSIVE SumLeft(_)
SumLeft(left) == IF left = <<>> THEN 0
                 ELSE (Head(left)[2] - Head(left)[1]) + SumLeft(Tail(left))

IsAlloc(nd) == IF nd.rec THEN nd.part = Len(nd.left) ELSE nd.alloc = nd.size
SendSize(nd) == IF nd.rec THEN SumLeft(nd.left) ELSE nd.size

\* returns <<node', offset, length>>
Allocate(nd, desired) ==
  IF nd.rec
  THEN LET r == nd.left[nd.part + 1]
           off == r[1] + nd.used
       IN IF off + desired >= r[2]
          THEN << [nd EXCEPT !.part = @ + 1, !.used = 0], off, r[2] - off >>
          ELSE << [nd EXCEPT !.used = @ + desired], off, desired >>
  ELSE LET off == nd.alloc
           len == IF desired = 0 \/ off + desired > nd.size
                  THEN nd.size - off ELSE desired
       IN << [nd EXCEPT !.alloc = @ + len], off, len >>

PrevName(s, n) ==
  IF s.node[n].rec THEN s.node[n].rprev
  ELSE IF s.prv[n] # Nil THEN s.node[s.prv[n]].name ELSE ""

RemoveFile(s, n) ==
  LET g == s.node[n].grp
      s1 == IF s.headF[g] = n THEN [s EXCEPT !.headF[g] = s.nxt[n]] ELSE s
  IN [s1 EXCEPT !.byFile = Del(@, s.node[n].name)]

-----------------------------------------------------------------------------
(* groups: addGroup, delayGroup on the group list (a sequence from headGroup)*)
Prio(g) == conf[g].prio

RECURSIVE FirstLower(_, _, _)
FirstLower(gs, p, i) ==      \* first index whose priority is lower than p
  IF i > Len(gs) THEN i
  ELSE IF p > Prio(gs[i]) THEN i ELSE FirstLower(gs, p, i + 1)

InsertAt(sq, i, x) == SubSeq(sq, 1, i - 1) \o <<x>> \o SubSeq(sq, i, Len(sq))
RemoveAt(sq, i) == SubSeq(sq, 1, i - 1) \o SubSeq(sq, i + 1, Len(sq))

AddGroup(s, g) ==
  [s EXCEPT !.gseq = InsertAt(@, FirstLower(@, Prio(g), 1), g)]

IndexOf(sq, x) == CHOOSE i \in 1..Len(sq) : sq[i] = x

RECURSIVE LastSame(_, _, _)
LastSame(gs, p, i) ==
  IF i < Len(gs) /\ Prio(gs[i + 1]) = p THEN LastSame(gs, p, i + 1) ELSE i

DelayGroup(s, g) ==
  LET k == IndexOf(s.gseq, g)
      j == LastSame(s.gseq, Prio(g), k)
  IN IF j = k THEN s
     ELSE [s EXCEPT !.gseq = InsertAt(RemoveAt(@, k), j, g)]

\* getGroup: <<state', found>>
GetGroup(s, g) ==
  IF Has(s.lst, g) THEN <<s, TRUE>>
  ELSE IF ~Has(conf, g) THEN <<s, FALSE>>
  ELSE << AddGroup([s EXCEPT !.lst = @ @@ (g :> <<>>),
                             !.headF = @ @@ (g :> Nil)], g), TRUE >>

-----------------------------------------------------------------------------
(* addFile *)
\* strings cannot be compared with < in TLC: names carry an explicit rank
\* (nrank) that orders them as Go's string comparison does
NameGT(a, b) == a.nrank > b.nrank

Matcher(order, a, b) ==
  CASE order = "alpha" -> NameGT(a, b)
    [] order \in {"fifo", "lifo"} ->
         IF a.time = b.time THEN NameGT(a, b)
         ELSE IF order = "fifo" THEN a.time > b.time ELSE a.time < b.time
    [] OTHER -> FALSE

\* sort.Search(n, f): smallest i in [0,n] with f(i), by bisection
RECURSIVE Bisect(_, _, _, _, _)
Bisect(s, list, order, file, ij) ==
  LET i == ij[1]
      j == ij[2]
  IN IF i >= j THEN i
     ELSE LET h == (i + j) \div 2
          IN IF ~Matcher(order, s.node[list[h + 1]], file)
             THEN Bisect(s, list, order, file, <<h + 1, j>>)
             ELSE Bisect(s, list, order, file, <<i, h>>)

AddFile(s0, n) ==
  LET nd == s0.node[n]
      g == nd.grp
      s == [s0 EXCEPT !.byFile = Put(@, nd.name, n)]
      head == s.headF[g]
      list == s.lst[g]
      order == conf[g].order
  IN IF head = Nil
     THEN [s EXCEPT !.headF[g] = n, !.lst[g] = Append(list, n)]
     ELSE
       LET i == IF order \in {"alpha", "fifo", "lifo"}
                THEN Bisect(s, list, order, nd, <<0, Len(list)>>)
                ELSE Len(list)                       \* 0-based position
           nlist == InsertAt(list, i + 1, n)
           s1 == [s EXCEPT !.lst[g] = nlist]
           s2 == IF i = 0
                 THEN IF Len(nlist) = 1 THEN InsertAfter(s1, n, head)
                      ELSE InsertBefore(s1, n, nlist[2])
                 ELSE InsertAfter(s1, n, nlist[i])
       IN [s2 EXCEPT !.headF[g] = nlist[1]]

-----------------------------------------------------------------------------
(* Push(files) *)
NewNode(f) == [name |-> f.name, nrank |-> f.nrank, grp |-> f.grp,
               time |-> f.time, size |-> f.size,
               rec |-> f.rec, rprev |-> f.rprev, left |-> f.left,
               alloc |-> 0, part |-> 0, used |-> 0]

RemoveFirstNamed(s, list, name) ==
  IF \E i \in 1..Len(list) : s.node[list[i]].name = name
  THEN RemoveAt(list, CHOOSE i \in 1..Len(list) :
                         /\ s.node[list[i]].name = name
                         /\ \A j \in 1..(i - 1) : s.node[list[j]].name # name)
  ELSE list

PushOne(s0, f) ==
  LET gg == GetGroup(s0, f.grp)
      s == gg[1]
  IN IF ~gg[2] THEN s
     ELSE
       LET s1 == IF Has(s.byFile, f.name)
                 THEN LET o == s.byFile[f.name]
                          p == s.prv[o]
                          a0 == Unlink(RemoveFile(s, o), o)
                          \* (fix of finding Q1) the completed predecessor stays
                          \* as head so that the chain continues
                          a == IF a0.headF[f.grp] = Nil /\ p # Nil
                               THEN [a0 EXCEPT !.headF[f.grp] = p] ELSE a0
                      IN [a EXCEPT !.lst[f.grp] = RemoveFirstNamed(a, @, f.name)]
                 ELSE s
           n == Len(s1.node) + 1
           s2 == [s1 EXCEPT !.node = Append(@, NewNode(f)),
                            !.nxt = Append(@, Nil), !.prv = Append(@, Nil)]
       IN AddFile(s2, n)

RECURSIVE PushAll(_, _)
PushAll(s, files) ==
  IF files = <<>> THEN s ELSE PushAll(PushOne(s, Head(files)), Tail(files))

-----------------------------------------------------------------------------
(* Pop *)
\* the inner loop that skips allocated files at the head of one group;
\* returns <<state', next, advance>>
RECURSIVE SkipAlloc(_, _, _)
SkipAlloc(s, next, adv) ==
  IF next # Nil /\ IsAlloc(s.node[next])
  THEN IF s.nxt[next] = Nil THEN <<s, Nil, adv>>
       ELSE LET s1 == RemoveFile(s, next)
                p == s1.prv[next]
                x == s1.nxt[next]
                s2 == IF p # Nil THEN Unlink(s1, p) ELSE s1
            IN SkipAlloc(s2, x, adv + 1)
  ELSE <<s, next, adv>>

\* the outer loop over the groups; returns <<state', group or "", next>>
RECURSIVE PopScan(_, _), PopScanNext(_, _)
PopScan(s, gi) ==
  IF gi > Len(s.gseq) THEN <<s, "", Nil>>
  ELSE
    LET g == s.gseq[gi]
        r == SkipAlloc(s, s.headF[g], 0)
        s1 == IF r[3] > 0
              THEN [r[1] EXCEPT !.lst[g] = SubSeq(@, r[3] + 1, Len(@))]
              ELSE r[1]
        next == r[2]
    IN IF next = Nil THEN PopScanNext(s1, g)
       ELSE IF conf[g].delay /\ s1.nxt[next] = Nil /\ Young(s1.node[next].time) /\ ~s1.aged
            THEN PopScanNext(s1, g)
            ELSE <<DelayGroup(s1, g), g, next>>

\* "g = g.next": the position of the following group is looked up again
\* because the list did not change in this branch
PopScanNext(s, g) == PopScan(s, IndexOf(s.gseq, g) + 1)

RECURSIVE UnlinkPrevs(_, _)
UnlinkPrevs(s, n) ==
  IF s.prv[n] # Nil THEN UnlinkPrevs(Unlink(s, s.prv[n]), n) ELSE s

\* returns <<state', result>>
Pop(s0) ==
  LET r == PopScan(s0, 1)
      s == r[1]
      g == r[2]
      next == r[3]
  IN IF next = Nil THEN <<s, NoRes>>
     ELSE
       LET a == Allocate(s.node[next], conf[g].chunk)
           s1 == [s EXCEPT !.node[next] = a[1]]
           pn0 == IF conf[g].order # "none" THEN PrevName(s1, next) ELSE ""
           pn == IF pn0 = s1.node[next].name THEN "" ELSE pn0
           res == [name |-> s1.node[next].name, grp |-> g, off |-> a[2],
                   len |-> a[3], prev |-> pn, send |-> SendSize(s1.node[next])]
           s2 == IF IsAlloc(s1.node[next])
                 THEN LET b == RemoveFile(s1, next)
                          c == [b EXCEPT !.lst[g] = Tail(@)]
                          d == UnlinkPrevs(c, next)
                      IN IF d.headF[g] = Nil
                         THEN Unlink([d EXCEPT !.headF[g] = next], next)
                         ELSE d
                 ELSE s1
       IN <<s2, res>>

-----------------------------------------------------------------------------
(* Property formulas over a history H of events                            *)
(*   [op |-> "push", files |-> Seq(file)]  or  [op |-> "pop", res |-> r]   *)
(* Each formula speaks about the LAST event of H only.                     *)
(* Points in a history are numbered  A = 10*k + i : the i-th file of the   *)
(* push at index k arrives at 10*k+i, the pop at index k happens at 10*k.  *)

\* file instances: <<k, i>> = i-th file of the push at history index k
Arr(ki) == ki[1] * 10 + ki[2]
InstsB(H, A) ==
  { ki \in (1..Len(H)) \X (1..8) :
      /\ Arr(ki) < A
      /\ H[ki[1]].op = "push" /\ ki[2] <= Len(H[ki[1]].files)
      /\ Has(conf, H[ki[1]].files[ki[2]].grp) }
Insts(H, upto) == InstsB(H, (upto + 1) * 10)
FileOf(H, ki) == H[ki[1]].files[ki[2]]

NeedBytes(f) == IF f.rec THEN SumLeft(f.left) ELSE f.size

\* arrival point of the next push of the same name (the instance is superseded
\* there), or A if there is none before A
SupersededAt(H, ki, A) ==
  LET later == { kj \in InstsB(H, A) :
                   Arr(kj) > Arr(ki) /\ FileOf(H, kj).name = FileOf(H, ki).name }
  IN IF later = {} THEN A
     ELSE Arr(CHOOSE kj \in later : \A kk \in later : Arr(kj) <= Arr(kk))
Superseded(H, ki, A) == SupersededAt(H, ki, A) < A

\* bytes emitted for instance ki by pops before point A, while it was the
\* current instance of its name
RECURSIVE EmittedFrom(_, _, _, _)
EmittedFrom(H, name, from, upto) ==
  IF from > upto THEN 0
  ELSE (IF H[from].op = "pop" /\ H[from].res.name = name THEN H[from].res.len ELSE 0)
       + EmittedFrom(H, name, from + 1, upto)
Emitted(H, ki, A) ==
  LET lim == SupersededAt(H, ki, A)             \* pops k with 10*k < lim
      last == IF lim % 10 = 0 THEN (lim \div 10) - 1 ELSE lim \div 10
  IN EmittedFrom(H, FileOf(H, ki).name, ki[1] + 1,
                 IF last > Len(H) THEN Len(H) ELSE last)

\* pending at point A: pushed, current, bytes left to emit
PendingB(H, A) ==
  { ki \in InstsB(H, A) :
      /\ ~Superseded(H, ki, A)
      /\ Emitted(H, ki, A) < NeedBytes(FileOf(H, ki)) }
PendingInB(H, A, g) == { ki \in PendingB(H, A) : FileOf(H, ki).grp = g }
Pending(H, k) == PendingB(H, k * 10)
PendingIn(H, k, g) == PendingInB(H, k * 10, g)

\* instances "handled" up to event index upto: completely emitted (at which
\* pop), or pushed as already sent (placeholder: nothing to emit)
DoneAt(H, ki, upto) ==       \* history index of completion, 0 if not complete
  IF NeedBytes(FileOf(H, ki)) = 0 THEN ki[1]
  ELSE LET ks == { k \in (ki[1] + 1)..upto :
                     /\ k * 10 < SupersededAt(H, ki, (upto + 1) * 10)
                     /\ Emitted(H, ki, k * 10 + 1) >= NeedBytes(FileOf(H, ki)) }
       IN IF ks = {} THEN 0 ELSE CHOOSE k \in ks : \A k2 \in ks : k <= k2

StrictlyBefore(order, ki, kj, H) ==   \* ki sorts strictly before kj
  LET a == FileOf(H, ki)
      b == FileOf(H, kj)
  IN CASE order = "fifo" -> a.time < b.time
       [] order = "lifo" -> a.time > b.time
       [] order = "alpha" -> a.nrank < b.nrank
       [] OTHER -> Arr(ki) < Arr(kj)

\* the instance a pop result belongs to
InstOfRes(H, k) ==
  { ki \in Pending(H, k) : FileOf(H, ki).name = H[k].res.name }

IsPop(H) == H # <<>> /\ H[Len(H)].op = "pop"
IsChunk(H) == IsPop(H) /\ H[Len(H)].res.name # ""

\* a group has a chunk ready before event k
\* time passed (a "tick" event) before event k: every file has outlived the last-file delay
Ticked(H, k) == \E j \in 1..(k - 1) : H[j].op = "tick"
Withheld(H, k, g) ==
  /\ conf[g].delay /\ ~Ticked(H, k)
  /\ Cardinality(PendingIn(H, k, g)) = 1
  /\ \A ki \in PendingIn(H, k, g) : Young(FileOf(H, ki).time)
Ready(H, k, g) == PendingIn(H, k, g) # {} /\ ~Withheld(H, k, g)
Groups(H, k) == { FileOf(H, ki).grp : ki \in Insts(H, k) }

---- \* C10
\* the chunk belongs to a pending file, and no pending file of its group comes
\* strictly before it in the configured order
P_C10_Next(H) ==
  IsChunk(H) =>
    LET k == Len(H)
        r == H[k].res
        c == InstOfRes(H, k)
    IN /\ c # {}
       /\ \A ki \in c :
            /\ FileOf(H, ki).grp = r.grp
            /\ \A kj \in PendingIn(H, k, r.grp) :
                 ~StrictlyBefore(conf[r.grp].order, kj, ki, H)

\* a file never names itself
P_C10_NoSelf(H) == IsChunk(H) => H[Len(H)].res.prev # H[Len(H)].res.name

HandledBefore(H, k, g) ==
  { ki \in Insts(H, k - 1) : FileOf(H, ki).grp = g /\ DoneAt(H, ki, k - 1) # 0 }

\* Known finding Q1 (see known_findings.json): a name pushed again while its
\* earlier instance is the only listed file of the group loses the chain (Push
\* empties the list, addFile then starts a fresh chain without predecessor).
CONSTANT KF_Q1
RepushAlone(H, ki) ==
  LET g == FileOf(H, ki).grp
      pend == PendingInB(H, Arr(ki), g)
  IN \E kj \in pend : FileOf(H, kj).name = FileOf(H, ki).name /\ pend = {kj}

\* the chain of group g is lost at event k: such a re-push happened after the
\* most recent completion in g
ChainLost(H, k, g) ==
  \E ki \in Insts(H, k - 1) :
     /\ FileOf(H, ki).grp = g /\ RepushAlone(H, ki)
     /\ \A kj \in Insts(H, k - 1) :
          FileOf(H, kj).grp = g => DoneAt(H, kj, k - 1) < ki[1]

HasRestartFiles(H) ==
  \E ki \in Insts(H, Len(H)) : FileOf(H, ki).rec

\* the announced predecessor: none for unordered tags and resumed files keep
\* theirs; otherwise a file of the group handled before; without restart files
\* it is the one handled most recently (none if that is the file's own name)
P_C10_Prev(H) ==
  IsChunk(H) =>
    LET k == Len(H)
        r == H[k].res
        g == r.grp
        hb == HandledBefore(H, k, g)
    IN IF conf[g].order = "none" THEN r.prev = ""
       ELSE \A ki \in InstOfRes(H, k) :
         IF FileOf(H, ki).rec
         THEN r.prev = (IF FileOf(H, ki).rprev = r.name THEN "" ELSE FileOf(H, ki).rprev)
         ELSE /\ r.prev # "" => \E kj \in hb : FileOf(H, kj).name = r.prev
              /\ (~HasRestartFiles(H) /\ ~(KF_Q1 /\ ChainLost(H, k, g))) =>
                   IF hb = {} THEN r.prev = ""
                   ELSE LET m == CHOOSE kj \in hb : \A kk \in hb :
                                   DoneAt(H, kk, k - 1) <= DoneAt(H, kj, k - 1)
                        IN r.prev = (IF FileOf(H, m).name = r.name THEN ""
                                     ELSE FileOf(H, m).name)

\* while every name is queued once, the announced relation is acyclic: every
\* announced predecessor was handled strictly earlier than the announcing file
NamesOnce(H) ==
  \A ki, kj \in Insts(H, Len(H)) :
     FileOf(H, ki).name = FileOf(H, kj).name => ki = kj
PrevPairs(H) ==
  { <<H[k].res.name, H[k].res.prev>> :
      k \in { k \in 1..Len(H) : H[k].op = "pop" /\ H[k].res.name # "" /\ H[k].res.prev # "" } }
RECURSIVE Reach(_, _, _)
Reach(pairs, from, n) ==    \* names reachable from the set `from` in <= n steps
  IF n = 0 THEN from
  ELSE Reach(pairs, from \cup { p[2] : p \in { p \in pairs : p[1] \in from } }, n - 1)
P_C10_Acyclic(H) ==
  (IsChunk(H) /\ NamesOnce(H) /\ ~HasRestartFiles(H)) =>
     LET pairs == PrevPairs(H)
     IN \A p \in pairs :
          p[1] \notin Reach(pairs, {p[2]}, Cardinality(pairs))

---- \* C11 (chunk half): chunk limits and tiling of what was emitted so far
P_C11_Chunk(H) ==
  IsChunk(H) =>
    LET k == Len(H)
        r == H[k].res
    IN /\ r.len > 0
       /\ conf[r.grp].chunk > 0 => r.len <= conf[r.grp].chunk
       /\ \A ki \in InstOfRes(H, k) :
            LET f == FileOf(H, ki)
                done == Emitted(H, ki, k * 10)
            IN /\ r.send = NeedBytes(f)
               /\ IF ~f.rec
                  THEN /\ r.off = done               \* ascending, gap free
                       /\ r.off + r.len <= f.size
                       /\ (conf[r.grp].chunk = 0 \/ r.len < conf[r.grp].chunk)
                            => r.off + r.len = f.size
                  ELSE \* inside exactly one missing range, in order
                       \E i \in 1..Len(f.left) :
                         LET b == f.left[i][1]
                             e == f.left[i][2]
                             before == SumLeft(SubSeq(f.left, 1, i - 1))
                         IN /\ b <= r.off /\ r.off + r.len <= e
                            /\ r.off - b = done - before

---- \* C12
P_C12_Priority(H) ==
  IsChunk(H) =>
    LET k == Len(H)
        g == H[k].res.grp
    IN \A g2 \in Groups(H, k) :
         conf[g2].prio > conf[g].prio => ~Ready(H, k, g2)

\* nothing is returned only if no group is ready; a withheld file is not emitted
P_C12_NoIdle(H) ==
  (IsPop(H) /\ H[Len(H)].res.name = "") =>
     \A g \in Groups(H, Len(H)) : ~Ready(H, Len(H), g)

\* (placeholders of a restart that sort behind the young file make it "not the
\* last file" for the code; the clause is stated for histories without them)
P_C12_DelaySkip(H) ==
  (IsChunk(H) /\ ~HasRestartFiles(H)) => ~Withheld(H, Len(H), H[Len(H)].res.grp)

\* rotation: let k2 = Len(H) be a chunk of g and k1 the previous chunk of g.
\* Every other group of g's priority that was ready at every pop in k1..k2 was
\* served at least once in between, and exactly once if g was ready throughout.
PopIdx(H, a, b) == { k \in a..b : H[k].op = "pop" }
P_C12_Rotation(H) ==
  IsChunk(H) =>
    LET k2 == Len(H)
        g == H[k2].res.grp
        prevs == { k \in 1..(k2 - 1) : H[k].op = "pop" /\ H[k].res.grp = g }
    IN prevs # {} =>
       LET k1 == CHOOSE k \in prevs : \A kk \in prevs : kk <= k
           between == { k \in (k1 + 1)..(k2 - 1) : H[k].op = "pop" }
           gReady == \A k \in between : Ready(H, k, g)
       IN \A g2 \in Groups(H, k2) \ {g} :
            (conf[g2].prio = conf[g].prio
             /\ \A k \in PopIdx(H, k1, k2) : Ready(H, k, g2))
            => LET n == Cardinality({ k \in between : H[k].res.grp = g2 })
               IN n >= 1 /\ (gReady => n = 1)

-----------------------------------------------------------------------------
(* internal consistency of the transcription (design only) *)
I_HeadFirst ==
  \A g \in DOMAIN q.lst : q.lst[g] # <<>> => q.headF[g] = q.lst[g][1]
I_ChainMirrorsList ==
  \A g \in DOMAIN q.lst : \A i \in 1..(Len(q.lst[g]) - 1) :
     q.nxt[q.lst[g][i]] = q.lst[g][i + 1] /\ q.prv[q.lst[g][i + 1]] = q.lst[g][i]
I_ByFile ==
  \A g \in DOMAIN q.lst : \A i \in 1..Len(q.lst[g]) :
     Has(q.byFile, q.node[q.lst[g][i]].name)

-----------------------------------------------------------------------------
(* the design: any configuration, any history of Push and Pop              *)
CONSTANTS Confs,       \* set of tag configurations
          Batches,     \* function: batch id -> sequence of files a Push may carry
          MaxOps,      \* bound on the length of a history
          MaxPush      \* bound on the number of Push events in it

Init == /\ conf \in Confs
        /\ q = EmptyQ
        /\ hist = <<>>

DoPush(files) ==
  /\ q' = PushAll(q, files)
  /\ hist' = Append(hist, [op |-> "push", files |-> files])
  /\ UNCHANGED conf

DoPop ==
  LET r == Pop(q)
  IN /\ q' = r[1]
     /\ hist' = Append(hist, [op |-> "pop", res |-> r[2]])
     /\ UNCHANGED conf

\* the environment: time passes until no file is younger than the last-file delay (once per history)
DoTick ==
  /\ ~q.aged /\ hist # <<>> /\ \E g \in DOMAIN conf : conf[g].delay
  /\ q' = [q EXCEPT !.aged = TRUE]
  /\ hist' = Append(hist, [op |-> "tick"])
  /\ UNCHANGED conf

Next == /\ Len(hist) < MaxOps
        /\ \/ /\ Cardinality({ k \in 1..Len(hist) : hist[k].op = "push" }) < MaxPush
              /\ \E b \in DOMAIN Batches : DoPush(Batches[b])
           \/ DoPop
           \/ DoTick

Spec == Init /\ [][Next]_vars

Inv_C10_Next == P_C10_Next(hist)
Inv_C10_NoSelf == P_C10_NoSelf(hist)
Inv_C10_Prev == P_C10_Prev(hist)
Inv_C10_Acyclic == P_C10_Acyclic(hist)
Inv_C11_Chunk == P_C11_Chunk(hist)
Inv_C12_Priority == P_C12_Priority(hist)
Inv_C12_NoIdle == P_C12_NoIdle(hist)
Inv_C12_DelaySkip == P_C12_DelaySkip(hist)
Inv_C12_Rotation == P_C12_Rotation(hist)
=============================================================================
