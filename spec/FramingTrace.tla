---------------------------- MODULE FramingTrace ----------------------------
(* Trace validation for the payload wire format.  Each "case" event is one    *)
(* payload sent through the real encoder and decoder (mode "memory") or over *)
(* a real HTTP request (mode "http"): part lengths, where the stream was cut *)
(* (-1: intact), whether the decoded descriptor list equals the encoded one  *)
(* (descr_ok) and per part handed to the receiver: number of bytes, whether   *)
(* they are exactly the part's own bytes (own), a prefix of them (prefix),    *)
(* and how the read ended (eof = accepted as complete).                       *)
EXTENDS Framing, Json
CONSTANT TraceFile
Trace == ndJsonDeserialize(TraceFile)
VARIABLES l, e
tvars == <<lens, cut, metaLen, eofStyle, ePart, eOff, wire, dPos, dHdr, dPart, dGot, dDone, out, l, e>>
TraceInit == l = 1 /\ e = [op |-> "none"] /\ lens = <<>> /\ cut = -1 /\ metaLen = 0 /\ eofStyle = "separate" /\ ePart = 0 /\ eOff = 0
             /\ wire = <<>> /\ dPos = 0 /\ dHdr = FALSE /\ dPart = 0 /\ dGot = <<>> /\ dDone = FALSE /\ out = <<>>
TraceNext == l <= Len(Trace) /\ l' = l + 1 /\ e' = Trace[l]
             /\ UNCHANGED <<lens, cut, metaLen, eofStyle, ePart, eOff, wire, dPos, dHdr, dPart, dGot, dDone, out>>
TraceSpec == TraceInit /\ [][TraceNext]_tvars
TraceAccepted == TLCGet("stats").diameter = Len(Trace) + 1

IsCase == e.op = "case"
\* intact payload: same descriptors, every part exactly its own bytes
Obs_C13_RoundTrip ==
  (IsCase /\ e.cut < 0 /\ e.metaLen = 0) =>
     /\ e.descr_ok
     /\ Len(e.out) = Len(e.lens)
     /\ \A i \in 1..Len(e.out) : e.out[i].own /\ e.out[i].end = "eof" /\ e.out[i].len = e.lens[i]
\* a part accepted as complete holds exactly its own bytes
Obs_C13_Refuse ==
  IsCase => \A i \in 1..Len(e.out) : e.out[i].end = "eof" => (KF_S10 /\ e.cut >= 0) \/ e.out[i].own
\* never a byte of the header or of a neighbour
Obs_C13_NoForeign ==
  (IsCase /\ e.metaLen = 0) => \A i \in 1..Len(e.out) : e.out[i].prefix
=============================================================================
