----------------------------- MODULE MCFraming -----------------------------
EXTENDS Framing, Json
PayloadsSmall == { <<1>>, <<2>>, <<5>>, <<1, 2>>, <<2, 1>>, <<5, 1>>, <<1, 5, 2>>, <<2, 2, 2>> }
CONSTANT Emit
EmitScenario ==
  (Emit /\ Case.finished) => PrintT("SCN " \o ToJson([lens |-> lens, cut |-> cut, metaLen |-> metaLen - HdrLen, eof |-> eofStyle,
       ends |-> [i \in 1..Len(out) |-> out[i].end], got |-> [i \in 1..Len(out) |-> Len(out[i].bytes)]]))
View == <<lens, cut, metaLen, eofStyle, ePart, eOff, dPos, dHdr, dPart, dGot, dDone, out>>
=============================================================================
