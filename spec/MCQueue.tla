------------------------------ MODULE MCQueue ------------------------------
(* Bounded instances of Queue.tla for the design check and for scenario     *)
(* generation (direction B).                                                *)
EXTENDS Queue, Json

F(name, nrank, grp, time, size) ==
  [name |-> name, nrank |-> nrank, grp |-> grp, time |-> time, size |-> size,
   rec |-> FALSE, rprev |-> "", left |-> <<>>]
R(name, nrank, grp, time, size, rprev, left) ==
  [name |-> name, nrank |-> nrank, grp |-> grp, time |-> time, size |-> size,
   rec |-> TRUE, rprev |-> rprev, left |-> left]
T(prio, order, chunk, delay) ==
  [prio |-> prio, order |-> order, chunk |-> chunk, delay |-> delay]

\* ---- family A: one ordered group g (+ a second group h), all four orders
fa  == F("g/a", 1, "g", 1, 3)
fb  == F("g/b", 2, "g", 1, 2)      \* same time as a
fc  == F("g/c", 3, "g", 0, 1)      \* older than a, b
fa2 == F("g/a", 1, "g", 2, 2)      \* name a again, newer
fd  == F("h/d", 4, "h", 1, 1)
fp  == R("g/p", 5, "g", 1, 2, "", <<>>)                   \* placeholder
fr  == R("g/r", 6, "g", 0, 6, "g/z", <<<<1, 2>>, <<3, 6>>>>)  \* resumed
fu  == F("u/x", 7, "u", 1, 1)      \* no tag matches group u
ConfsA == { ("g" :> T(0, o, c, FALSE)) @@ ("h" :> T(0, "fifo", 0, FALSE)) :
              o \in {"fifo", "lifo", "alpha", "none"}, c \in {2} }
  \* chunk size 0 (= whole file) only occurs for group h: the running sender never
  \* configures 0 (main/client.go substitutes the payload size), and a resumed
  \* file with missing ranges is not defined for it
BatchesA == [a |-> <<fa>>, b |-> <<fb>>, c |-> <<fc>>, a2 |-> <<fa2>>, d |-> <<fd>>,
             p |-> <<fp>>, r |-> <<fr>>, ab |-> <<fa, fb>>, u |-> <<fu>>]

\* ---- family B: priorities, rotation, last-file delay
g1a == F("g1/a", 1, "g1", 1, 2)
g1b == F("g1/b", 2, "g1", 2, 1)
g1y == F("g1/y", 3, "g1", 21, 1)   \* young
g2a == F("g2/a", 4, "g2", 1, 2)
g2y == F("g2/y", 5, "g2", 20, 1)   \* young
g3a == F("g3/a", 6, "g3", 1, 2)
g4a == F("g4/a", 7, "g4", 1, 1)
g2p == R("g2/p", 8, "g2", 22, 1, "", <<>>)  \* placeholder sorting last
ConfsB == { ("g1" :> T(0, "fifo", 1, d1)) @@ ("g2" :> T(0, "fifo", 1, d2))
            @@ ("g3" :> T(0, "fifo", 1, FALSE)) @@ ("g4" :> T(1, "fifo", 0, FALSE)) :
              d1 \in BOOLEAN, d2 \in BOOLEAN }
BatchesB == [g1a |-> <<g1a>>, g1b |-> <<g1b>>, g1y |-> <<g1y>>, g2a |-> <<g2a>>,
             g2y |-> <<g2y>>, g3a |-> <<g3a>>, g4a |-> <<g4a>>, g2p |-> <<g2p>>,
             all |-> <<g1a, g2a, g3a>>]

\* ---- family C: two priority classes with two groups each (rotation inside a class while the other
\* class comes and goes; a class that runs empty and gets data again)
h1a == F("h1/a", 1, "h1", 1, 1)
h1b == F("h1/b", 2, "h1", 2, 1)
h2a == F("h2/a", 3, "h2", 1, 1)
l3a == F("l3/a", 4, "l3", 1, 2)
l4a == F("l4/a", 5, "l4", 1, 2)
ConfsC == { ("h1" :> T(1, "fifo", 1, FALSE)) @@ ("h2" :> T(1, "fifo", 1, FALSE))
            @@ ("l3" :> T(0, "fifo", 1, FALSE)) @@ ("l4" :> T(0, "fifo", 1, FALSE)) }
BatchesC == [h1a |-> <<h1a>>, h1b |-> <<h1b>>, h2a |-> <<h2a>>, hh |-> <<h1a, h2a>>,
             ll |-> <<l3a, l4a>>, l3a |-> <<l3a>>]

CONSTANT Emit
\* one line per maximal history: configuration, and per event either the batch
\* id pushed or the result the specification predicts for the Pop
Compact(e) ==
  IF e.op = "push"
  THEN [op |-> "push", b |-> CHOOSE id \in DOMAIN Batches : Batches[id] = e.files]
  ELSE e
EmitScenario ==
  (Emit /\ Len(hist) = MaxOps) =>
     PrintT("SCN " \o ToJson([conf |-> conf,
                              hist |-> [i \in 1..Len(hist) |-> Compact(hist[i])]]))
EmitDefs == PrintT("DEF " \o ToJson(Batches))
ASSUME Emit => EmitDefs
=============================================================================
