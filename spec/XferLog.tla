------------------------------ MODULE XferLog ------------------------------
(***************************************************************************)
(* The transfer logs of ARM-DOE/sts (log/local.go: FileIO, rollingFile):   *)
(* one file per day (YYYYMM/DD), one line per record,                      *)
(*   received:  name:renamed:hash:size:unixtime:                           *)
(*   sent    :  name:hash:size:unixtime: N ms                              *)
(* WasSent / WasReceived(name, hash, after, before) = rollingFile.search   *)
(* over the day files that rollingFile.each visits; Parse splits a line on *)
(* ':'.  Text is modelled as sequences of characters so that "contains",   *)
(* "starts with" and "split" mean what they mean in the code.              *)
(***************************************************************************)
EXTENDS Integers, Sequences, FiniteSets, TLC

CONSTANTS NamePool,     \* names (character sequences)
          HashPool,     \* hashes (character sequences)
          RenPool,      \* rename targets ( <<>> = none )
          LastDay,      \* days are 1..LastDay; "today" advances
          MaxRecs,
          KF_S1,        \* as found: first line CONTAINING the name decides (TRUE) / exact name field (FALSE)
          KF_S2         \* known finding: Parse splits names that contain ':'

Colon == <<":">>
SizeTxt == <<"8">>
TimeTxt(dy) == <<"1", "7">> \o <<ToString(dy)>>

VARIABLES kind,     \* "recv" | "sent": which logger this instance is
          files,    \* [day -> Seq(record)]  record = [name, ren, hash, day]
          today,
          hist      \* operations and their results
vars == <<kind, files, today, hist>>

Render(k, r) ==
  IF k = "recv"
  THEN r.name \o Colon \o r.ren \o Colon \o r.hash \o Colon \o SizeTxt \o Colon \o TimeTxt(r.day) \o Colon
  ELSE r.name \o Colon \o r.hash \o Colon \o SizeTxt \o Colon \o TimeTxt(r.day) \o <<":", " ", "5", " ", "m", "s">>

Contains(s, t) == \E i \in 1..(Len(s) - Len(t) + 1) : SubSeq(s, i, i + Len(t) - 1) = t
StartsWith(s, t) == Len(s) >= Len(t) /\ SubSeq(s, 1, Len(t)) = t

\* rollingFile.each: the day files visited for the window (from, to); times are
\* <<day, tod>> with tod in {0, 1}; adding 24 h keeps tod
Before(a, b) == a[1] < b[1] \/ (a[1] = b[1] /\ a[2] < b[2])
RECURSIVE Visit(_, _, _)
Visit(start, stop, fwd) ==
  IF start[1] < 0 \/ start[1] > LastDay + 2 THEN <<>>
  ELSE <<start[1]>> \o
       (IF fwd /\ Before(stop, start) THEN <<>>
        ELSE IF ~fwd /\ Before(start, stop) THEN <<>>
        ELSE Visit(<<start[1] + (IF fwd THEN 1 ELSE -1), start[2]>>, stop, fwd))
Visited(from, to) == IF from = to THEN <<>> ELSE Visit(from, to, ~Before(to, from))

DayLines(dy) == IF dy \in DOMAIN files THEN files[dy] ELSE <<>>

\* rollingFile.search within one day file
SearchDay(dy, name, hash) ==
  LET ls == DayLines(dy)
      txt(i) == Render(kind, ls[i])
      want == Colon \o hash \o Colon
  IN IF KF_S1
     THEN LET hits == { i \in 1..Len(ls) : Contains(txt(i), name) }
          IN hits # {} /\ LET i == CHOOSE i \in hits : \A j \in hits : i <= j
                          IN hash = <<>> \/ Contains(txt(i), want)
     ELSE \E i \in 1..Len(ls) :
            /\ StartsWith(txt(i), name \o Colon)
            /\ hash = <<>> \/ Contains(SubSeq(txt(i), Len(name) + 1, Len(txt(i))), want)

Search(name, hash, from, to) ==
  LET v == Visited(from, to)
  IN \E k \in 1..Len(v) : SearchDay(v[k], name, hash)

\* Parse: split on ':' ; fewer than 4 fields: skipped; more than 4: the second is the rename
RECURSIVE SplitAt(_, _)
SplitAt(s, acc) ==      \* returns the sequence of fields
  IF s = <<>> THEN <<acc>>
  ELSE IF Head(s) = ":" THEN <<acc>> \o SplitAt(Tail(s), <<>>)
  ELSE SplitAt(Tail(s), Append(acc, Head(s)))
ParseLine(txt) ==
  LET p == SplitAt(txt, <<>>)
  IN IF Len(p) < 4 THEN [ok |-> FALSE, name |-> <<>>, ren |-> <<>>, hash |-> <<>>]
     ELSE IF Len(p) > 4 THEN [ok |-> TRUE, name |-> p[1], ren |-> p[2], hash |-> p[3]]
     ELSE [ok |-> TRUE, name |-> p[1], ren |-> <<>>, hash |-> p[2]]

-----------------------------------------------------------------------------
Init ==
  /\ kind \in {"recv", "sent"}
  /\ files = <<>> /\ today = 1 /\ hist = <<>>

NRecs == Cardinality({ k \in 1..Len(hist) : hist[k].op = "write" })

Write(name, ren, hash) ==
  /\ NRecs < MaxRecs
  /\ kind = "sent" => ren = <<>>
  /\ LET r == [name |-> name, ren |-> ren, hash |-> hash, day |-> today]
     IN /\ files' = IF today \in DOMAIN files THEN [files EXCEPT ![today] = Append(@, r)]
                    ELSE files @@ (today :> <<r>>)
        /\ hist' = Append(hist, [op |-> "write", rec |-> r])
  /\ UNCHANGED <<kind, today>>

NextDay ==
  /\ today < LastDay /\ today' = today + 1
  /\ hist' = Append(hist, [op |-> "nextday"])
  /\ UNCHANGED <<kind, files>>

DoSearch(name, hash, from, to) ==
  /\ hist' = Append(hist, [op |-> "search", name |-> name, hash |-> hash, from |-> from, to |-> to,
                           res |-> Search(name, hash, from, to)])
  /\ UNCHANGED <<kind, files, today>>

RECURSIVE Flatten(_)
Flatten(ss) == IF ss = <<>> THEN <<>> ELSE Head(ss) \o Flatten(Tail(ss))
ParseAll(from, to) ==
  LET v == Visited(from, to)
  IN Flatten([k \in 1..Len(v) |->
        [i \in 1..Len(DayLines(v[k])) |-> ParseLine(Render(kind, DayLines(v[k])[i]))]])
DoParse(from, to) ==
  /\ kind = "recv"
  /\ hist' = Append(hist, [op |-> "parse", from |-> from, to |-> to, res |-> ParseAll(from, to)])
  /\ UNCHANGED <<kind, files, today>>

Times == { <<dy, t>> : dy \in 1..LastDay, t \in {0, 1} }
Open == IF hist = <<>> THEN TRUE ELSE hist[Len(hist)].op \notin {"search", "parse"}   \* queries end a history
Next ==
  \/ Open /\ \E n \in NamePool, r \in RenPool, x \in HashPool : Write(n, r, x)
  \/ Open /\ NextDay
  \/ \E n \in NamePool, x \in HashPool \cup {<<>>}, f \in Times, t \in Times :
       hist # <<>> /\ Open /\ DoSearch(n, x, f, t)
  \/ \E f \in Times, t \in Times :
       hist # <<>> /\ Open /\ DoParse(f, t)
Spec == Init /\ [][Next]_vars

-----------------------------------------------------------------------------
(* Formulas over a history H (they look at its last event); records written *)
(* are the "write" events of H.                                            *)
Last(H) == H[Len(H)]
Written(H) == { H[k].rec : k \in { k \in 1..Len(H) : H[k].op = "write" } }
DaysTouched(from, to) ==
  IF Before(from, to) THEN from[1]..to[1] ELSE IF Before(to, from) THEN to[1]..from[1] ELSE {}
Matches(r, name, hash) == r.name = name /\ (hash = <<>> \/ r.hash = hash)
\* known finding S2: the record format cannot express names that contain ':'
OddNames(H) == KF_S2 /\ \E r \in Written(H) : Contains(r.name, Colon) \/ Contains(r.ren, Colon)

\* a record for exactly that name (and hash) on a day the window touches => yes
P_C18_Complete(H) ==
  (H # <<>> /\ Last(H).op = "search") =>
     LET e == Last(H)
     IN (\E r \in Written(H) : Matches(r, e.name, e.hash) /\ r.day \in DaysTouched(e.from, e.to)) => e.res
\* yes => there is a record for exactly that name (and hash)
P_C18_Exact(H) ==
  (H # <<>> /\ Last(H).op = "search") =>
     LET e == Last(H)
     IN (e.res /\ ~OddNames(H)) => \E r \in Written(H) : Matches(r, e.name, e.hash)
\* replaying the log yields every record of the visited days, in order, with its fields
P_C18_Parse(H) ==
  (H # <<>> /\ Last(H).op = "parse") =>
     LET e == Last(H)
         v == Visited(e.from, e.to)
         onDay(dy) == SelectSeq([j \in 1..Len(H) |-> IF H[j].op = "write" /\ H[j].rec.day = dy
                                                     THEN H[j].rec ELSE [none |-> TRUE]],
                                LAMBDA x : "name" \in DOMAIN x)
         want == Flatten([k \in 1..Len(v) |-> onDay(v[k])])
         odd(r) == Contains(r.name, Colon) \/ Contains(r.ren, Colon)
     IN /\ Len(e.res) = Len(want)
        /\ \A i \in 1..Len(want) :
             (KF_S2 /\ odd(want[i]))
             \/ (e.res[i].ok /\ e.res[i].name = want[i].name /\ e.res[i].ren = want[i].ren
                  /\ e.res[i].hash = want[i].hash)

Inv_C18_Complete == P_C18_Complete(hist)
Inv_C18_Exact == P_C18_Exact(hist)
Inv_C18_Parse == P_C18_Parse(hist)
=============================================================================
