------------------------------ MODULE ConfTrace ------------------------------
(* Trace validation for the configuration code: every "case" event carries   *)
(* the abstract document and the effective values observed from the real     *)
(* sts.NewConf (eff) and after json.Marshal + NewConf (eff2).                 *)
EXTENDS Conf, Json
CONSTANT TraceFile
Trace == ndJsonDeserialize(TraceFile)
VARIABLE l
tvars == <<c, l>>
Obs(e) == [doc |-> e.doc, eff |-> e.eff, eff2 |-> e.eff2]
TraceInit == l = 1 /\ c = [doc |-> <<>>, eff |-> <<>>, eff2 |-> <<>>]
TraceNext == l <= Len(Trace) /\ l' = l + 1 /\ c' = Obs(Trace[l])
TraceSpec == TraceInit /\ [][TraceNext]_tvars
TraceAccepted == TLCGet("stats").diameter = Len(Trace) + 1
Obs_C19_Inherit == P_C19_Inherit(c)
Obs_C19_RoundTrip == P_C19_RoundTrip(c)
Conform == c.doc = <<>> \/ (c.eff = Show(Eff(c.doc)) /\ c.eff2 = Show(Eff(Encode(Eff(c.doc)))))
=============================================================================
