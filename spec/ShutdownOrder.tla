--------------------------- MODULE ShutdownOrder ---------------------------
(* The order in which Broker.Start lets its goroutines leave and closes its  *)
(* channels, as a formula over a sequence of "exit:<who>", "close:<channel>" *)
(* and "return" labels: a channel is closed only after every goroutine that  *)
(* writes to it has left, the closes happen downstream-ward, and Start       *)
(* returns last.  Evaluated on the order the hooks of the real code report   *)
(* (SenderTrace.tla); the design-level counterpart is P_C16_NoSendOnClosed   *)
(* of Sender.tla.                                                            *)
EXTENDS Integers, Sequences, FiniteSets
Pos(sq, x) == IF \E i \in 1..Len(sq) : sq[i] = x THEN CHOOSE i \in 1..Len(sq) : sq[i] = x /\ \A j \in 1..(i - 1) : sq[j] # x ELSE 0
Last2(sq, x) == IF \E i \in 1..Len(sq) : sq[i] = x THEN CHOOSE i \in 1..Len(sq) : sq[i] = x /\ \A j \in (i + 1)..Len(sq) : sq[j] # x ELSE 0
Count(sq, x) == Cardinality({ i \in 1..Len(sq) : sq[i] = x })
\* a channel is closed after all n goroutines that write to it have left
ClosedAfter(sq, close, exit, n) == Pos(sq, close) # 0 => (Count(sq, exit) = n /\ Last2(sq, exit) < Pos(sq, close))
Then(sq, a, b) == Pos(sq, b) # 0 => (Pos(sq, a) # 0 /\ Pos(sq, a) < Pos(sq, b))
ExitOrderN(sq, n) ==
  /\ ClosedAfter(sq, "close:scanned", "exit:scan", 1)
  /\ ClosedAfter(sq, "close:scanned", "exit:retry", n)
  /\ ClosedAfter(sq, "close:queued", "exit:queue", 1)
  /\ ClosedAfter(sq, "close:transmit", "exit:bin", 1)
  /\ ClosedAfter(sq, "close:transmitted", "exit:send", n)
  /\ ClosedAfter(sq, "close:validate", "exit:track", 1)
  /\ ClosedAfter(sq, "close:retry", "exit:validate", 1)
  /\ ClosedAfter(sq, "return", "exit:stats", 1)
  /\ Then(sq, "close:scanned", "close:queued") /\ Then(sq, "close:queued", "close:transmit")
  /\ Then(sq, "close:transmit", "close:transmitted") /\ Then(sq, "close:transmitted", "close:validate")
  /\ Then(sq, "close:validate", "close:retry") /\ Then(sq, "close:retry", "return")
=============================================================================
