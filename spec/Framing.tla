------------------------------ MODULE Framing ------------------------------
(***************************************************************************)
(* The payload wire format (payload/bin.go): Encoder.Read on the sending   *)
(* side, NewDecoder / Decoder.Next / PartDecoder.Read on the receiving     *)
(* side, as state machines over a stream of tagged bytes.                  *)
(*                                                                         *)
(* A payload is a list of parts with lengths; the wire is the JSON header  *)
(* (H bytes, announced in the X-STS-MetaLen header) followed by the bytes  *)
(* of the parts.  A byte is <<i, o>> (byte o of part i) or <<0, k>> (k-th  *)
(* header byte).  Readers pull with arbitrary buffer sizes.  The           *)
(* environment may cut the stream (truncation) or announce a wrong header  *)
(* length.                                                                 *)
(***************************************************************************)
EXTENDS Integers, Sequences, FiniteSets, TLC

CONSTANTS Payloads,     \* set of sequences of part lengths
          HdrLen,       \* length of the header
          Bufs,         \* buffer sizes a reader may use
          MetaLens,     \* announced header lengths ( {HdrLen}: a correct client )
          EofStyles,    \* how the transport signals the end of a short body: "separate" (0 bytes, then
                        \* io.EOF) or "withdata" (the last bytes together with io.EOF, as gzip and
                        \* net/http bodies do)
          KF_S10        \* finding S10: a part whose stream ends early is not refused

VARIABLES lens,      \* the payload: part lengths
          cut,       \* the stream is cut after this many bytes (-1: not cut)
          metaLen,   \* announced header length
          eofStyle,  \* see EofStyles
          \* encoder
          ePart, eOff, wire,
          \* decoder
          dPos, dHdr, dPart, dGot, dDone,
          out        \* per part: the bytes handed to Receive, and how the read ended
vars == <<lens, cut, metaLen, eofStyle, ePart, eOff, wire, dPos, dHdr, dPart, dGot, dDone, out>>

Min(a, b) == IF a < b THEN a ELSE b
Total == HdrLen + (LET RECURSIVE S(_) S(i) == IF i = 0 THEN 0 ELSE lens[i] + S(i - 1) IN S(Len(lens)))

Init ==
  /\ lens \in Payloads
  /\ cut \in {-1} \cup (0..12)
  /\ metaLen \in MetaLens
  /\ eofStyle \in EofStyles
  /\ ePart = 0 /\ eOff = 0
  /\ wire = [k \in 1..HdrLen |-> <<0, k>>]        \* the header is written first by the transmitter
  /\ dPos = 0 /\ dHdr = FALSE /\ dPart = 0 /\ dGot = <<>> /\ dDone = FALSE /\ out = <<>>

\* Encoder.Read(p) with len(p) = n: at most the rest of the current part
EncRead(n) ==
  /\ ePart <= Len(lens)
  /\ LET i == IF ePart = 0 THEN 1 ELSE ePart
         off == IF ePart = 0 THEN 0 ELSE eOff
         k == Min(n, lens[i] - off)
     IN /\ wire' = wire \o [j \in 1..k |-> <<i, off + j>>]
        /\ IF off + k = lens[i] THEN ePart' = i + 1 /\ eOff' = 0 ELSE ePart' = i /\ eOff' = off + k
  /\ UNCHANGED <<lens, cut, metaLen, eofStyle, dPos, dHdr, dPart, dGot, dDone, out>>
EncDone == ePart > Len(lens)

\* what the receiver sees of the wire
Avail == IF cut < 0 THEN wire ELSE SubSeq(wire, 1, Min(cut, Len(wire)))
StreamEnded == EncDone /\ dPos >= Len(Avail)

\* NewDecoder: exactly metaLen bytes are taken for the header
DecHeader ==
  /\ ~dHdr /\ (Len(Avail) >= metaLen \/ StreamEnded)
  /\ dHdr' = TRUE /\ dPos' = Min(metaLen, Len(Avail))
  /\ dPart' = 1 /\ dGot' = <<>>
  /\ UNCHANGED <<lens, cut, metaLen, eofStyle, ePart, eOff, wire, dDone, out>>

\* PartDecoder.Read(out) with len(out) = n for the current part
PartRead(n) ==
  /\ dHdr /\ ~dDone /\ dPart <= Len(lens)
  /\ LET left == lens[dPart] - Len(dGot)
         want == Min(n, left)
         have == Len(Avail) - dPos
     IN /\ (have >= 1 \/ StreamEnded)
        /\ LET k == Min(want, have)
               got == dGot \o SubSeq(Avail, dPos + 1, dPos + k)
           IN /\ dPos' = dPos + k
              /\ IF Len(got) = lens[dPart]
                 THEN \* io.EOF from the part reader: the part is complete
                      /\ out' = Append(out, [bytes |-> got, end |-> "eof"])
                      /\ dPart' = dPart + 1 /\ dGot' = <<>> /\ UNCHANGED dDone
                 ELSE IF EncDone /\ ((k = 0 /\ dPos >= Len(Avail))
                                      \/ (eofStyle = "withdata" /\ k > 0 /\ dPos + k = Len(Avail)))
                 THEN \* the stream ended inside the part: io.EOF from the stream, alone or together
                      \* with the last bytes it had
                      /\ out' = Append(out, [bytes |-> got, end |-> IF KF_S10 THEN "eof" ELSE "unexpected"])
                      /\ dDone' = TRUE /\ UNCHANGED <<dPart, dGot>>
                 ELSE /\ dGot' = got /\ UNCHANGED <<dPart, dDone, out>>
  /\ UNCHANGED <<lens, cut, metaLen, eofStyle, ePart, eOff, wire, dHdr>>

Next ==
  \/ \E n \in Bufs : EncRead(n)
  \/ DecHeader
  \/ \E n \in Bufs : PartRead(n)
Spec == Init /\ [][Next]_vars

-----------------------------------------------------------------------------
(* Formulas over a case c = [lens, cut, metaLen, out]                        *)
RECURSIVE Before(_, _)
Before(ls, i) == IF i <= 1 THEN 0 ELSE ls[i - 1] + Before(ls, i - 1)
Own(c, i) == [j \in 1..c.lens[i] |-> <<i, j>>]
\* intact stream, correct header length: every part gets exactly its bytes
P_C13_RoundTrip(c) ==
  (c.cut < 0 /\ c.metaLen = HdrLen /\ c.finished) =>
     /\ Len(c.out) = Len(c.lens)
     /\ \A i \in 1..Len(c.lens) : c.out[i].bytes = Own(c, i) /\ c.out[i].end = "eof"
\* whatever happens, a part accepted as complete ("eof") holds exactly its own bytes
P_C13_Refuse(c) ==
  \A i \in 1..Len(c.out) : c.out[i].end = "eof" => (KF_S10 /\ c.cut >= 0) \/ c.out[i].bytes = Own(c, i)
\* no byte of a neighbour or of the header is ever handed to a part when the header length is right
P_C13_NoForeign(c) ==
  c.metaLen = HdrLen => \A i \in 1..Len(c.out) : \A j \in 1..Len(c.out[i].bytes) : c.out[i].bytes[j][1] = i

Case == [lens |-> lens, cut |-> cut, metaLen |-> metaLen, eofStyle |-> eofStyle, out |-> out,
         finished |-> (EncDone /\ dHdr /\ (dPart > Len(lens) \/ dDone))]
Inv_C13_RoundTrip == P_C13_RoundTrip(Case)
Inv_C13_Refuse == P_C13_Refuse(Case)
Inv_C13_NoForeign == P_C13_NoForeign(Case)
=============================================================================
