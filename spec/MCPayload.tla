----------------------------- MODULE MCPayload -----------------------------
EXTENDS Payload, Json

RECURSIVE ChunksFrom(_, _, _, _)
ChunksFrom(name, off, end, cs) ==
  IF off >= end THEN <<>>
  ELSE LET n == IF cs = 0 \/ off + cs > end THEN end - off ELSE cs
       IN <<[name |-> name, off |-> off, len |-> n]>> \o ChunksFrom(name, off + n, end, cs)
Chunks(name, size, cs) == ChunksFrom(name, 0, size, cs)
\* a resumed file: chunks of its missing ranges
RECURSIVE Resumed(_, _, _)
Resumed(name, left, cs) ==
  IF left = <<>> THEN <<>>
  ELSE ChunksFrom(name, Head(left)[1], Head(left)[2], cs) \o Resumed(name, Tail(left), cs)

CONSTANTS Sizes1, Sizes2, ChunkSizes
InputsMC ==
  { Chunks("a", s, c) : s \in Sizes1, c \in ChunkSizes }
  \cup { Chunks("a", s, c) \o Chunks("b", t, c) : s \in Sizes1, t \in Sizes2, c \in ChunkSizes }
  \cup { Resumed("r", <<<<1, 2>>, <<3, s>>>>, c) \o Chunks("b", 2, c) : s \in Sizes1 \ {1, 2, 3}, c \in ChunkSizes \ {0} }

CONSTANT Emit
EmitScenario ==
  (Emit /\ IsOp(hist, "end")) => PrintT("SCN " \o ToJson([cap |-> cap, hist |-> hist]))
=============================================================================
